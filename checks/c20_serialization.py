"""C20 - Serialized disciplines, processes and problems behave like the originals.

A recipe table (vlib/gen/recipes.py) instantiates, offline, the classes of the DisciplineFactory and
of the MDAFactory, scenarios, MDOFunction kinds, design / parameter spaces and optimization
problems from small drawn arguments.  The object lives a drawn life (executions, linearisations,
re-bound defaults, a scenario run, ...), is sent through a drawn serialization channel and the
restored object is compared with the original: what it exposes, what it computes on generated
inputs, and that the two objects do not share in-memory mutable state afterwards.
"""

from __future__ import annotations

import copy
import logging
import multiprocessing
import os
import pickle
import shutil
import tempfile
import traceback
import warnings
from enum import Enum
from pathlib import PurePath

import numpy as np
from hypothesis import strategies as st

from vlib.gen import recipes as R

logging.getLogger("gemseo").setLevel(logging.CRITICAL)
warnings.filterwarnings("ignore", category=DeprecationWarning)
warnings.filterwarnings("ignore", category=RuntimeWarning)
warnings.filterwarnings("ignore", message=".*Casting complex values to real.*")

PROPERTY = "C20"
LEVEL = "exploration"
RULE = (
    "One Hypothesis run per recipe of vlib/gen/recipes.py (57 of the 62 classes of DisciplineFactory + MDAFactory; the 5 others "
    "need external tools and are listed in skipped_classes): analytic / linear / concatenation / splitting / auto-py / "
    "array-based / remapping / filtering / Taylor / surrogate / aggregation disciplines, Sellar, Sobieski (+SG), Ishigami, "
    "aerostructure, propane, RosenMF, linear and parametric scalable, topology optimisation, ODE oscillator, the 5 chains, the 7 "
    "MDA classes on Sellar, the Sobieski chain / MDAs, the 2 scenario adapters.  A case draws the recipe arguments, the grammar "
    "type (JSON / Simple / Pydantic / Simpler where the class can be built with it), the cache (none / SimpleCache / "
    "MemoryFullCache / HDF5Cache in VERIF_SCRATCH, tolerance 0 or 1e-12), whether statistics are enabled, a life before pickling "
    "(0-4 of: execute at a generated point, repeated execute, linearize all / a differentiated subset, re-bound default, "
    "finite-difference mode, a CustomDOE scenario driving the object with or without Jacobians, grammar edits after use: "
    "restrict_to removing an output or the added input, update_from_data adding an optional input, rename_element, "
    "set_descriptions on JSON / Pydantic grammars), the channel (pickle.dumps/loads "
    "with protocol 2/4/5, to_pickle/from_pickle, or a forked multiprocessing worker that receives the object through a pipe, "
    "executes it and sends it back), 1-3 generated points (base point of the recipe perturbed component-wise, possibly omitting "
    "defaulted inputs, executed or linearized) and 1-4 mutations.  The restored object must expose equal grammars (ordered "
    "names, required names, defaults, same accept / reject decision on a complete, an incomplete and an ill-typed input), "
    "settings (MDA settings model, scaling, residual history, couplings), default inputs, cache content incl. last entry, "
    "local data, Jacobian, differentiated names, status and counters, recursively for sub-disciplines; re-executing the last "
    "input must hit or miss on both; execute / linearize at the generated points must give bit-identical outputs, Jacobians "
    "and local data and the same counter increments; after mutating one object (defaults in place and re-bound, local data, "
    "Jacobian and differentiated names, counters, cache.clear(), a new execution) the other must expose the same state and "
    "(history-free recipes) recompute the recorded values; a restored HDF5Cache must point to the same file / node and see the "
    "entries (the HDF5Cache gets a name of its own in half of the cases).  In 2/3 of the cases a second generation follows: "
    "the restored object is mutated again (1-3 of the same mutations plus deletion of a default), serialised again "
    "(dumps or file) and restored; the second generation must expose the state of the object it was made from and compute "
    "the same values / counters at the generated points; functions, spaces, problems and scenarios are likewise serialised "
    "a second time after use.  Drive cross_process: a batch of 6-8 disciplines (always two AnalyticDisciplines with 5-6 input "
    "symbols, plus drawn recipes, life of 0-2 steps) is built, used and saved with to_pickle by a child interpreter started "
    "with PYTHONHASHSEED=a, then loaded with from_pickle, executed and linearized by another child with PYTHONHASHSEED=b != a "
    "(a, b in {0, 1, 2, 3, 123}); the loaded object must expose the saved state and return bit-identical outputs / Jacobians "
    "to those the saving process computes on its own object after saving.  Drive grammar: a JSON / Pydantic / Simple / Simpler "
    "grammar built alone through 3-8 API calls (update_from_names / data / types, set_descriptions, defaults, optional names, "
    "restrict_to, rename_element, validation, schema read, namespaces) is sent through a channel; names, required names, "
    "defaults, namespaces, accept / reject decisions and - for the types that document them - schema, element descriptions and "
    "annotations (Simple: element types) must be equal; independence; second generation after further edits.  Drive "
    "hdf5_file_changes: an HDF5-cached discipline is used at 1-4 points (optionally revisiting an older entry), saved, then "
    "the original clears the node and stores fewer / as many / more points, or appends points, or does nothing, then the "
    "object is loaded: the restored cache must be a valid view of the file as it is at load time (same file / node / name, "
    "len and entries equal to the original's, last entry one of the entries, input / output names and names_to_sizes those "
    "of the last entry, to_dataset() with one row per entry) and stored points are hits returning the stored outputs.  "
    "Further drives: 18 MDOFunction kinds incl. ProblemFunction of a preprocessed problem (attributes, n_calls, "
    "travelling database, evaluate / jac, independence); DesignSpace / ParameterSpace (views, ==, normalisation / projection / "
    "cdf maps, OT sampling, independence); OptimizationProblem fresh / evaluated / after a driver (views incl. database, "
    "solution, counters; evaluate_functions; SLSQP / COBYLA / LHS / Halton run on both: equal results and databases; "
    "independence); MDO / DOE scenarios with DisciplinaryOpt / MDF / IDF / DisciplinaryOpt over an MDA, fresh or after 1-2 runs, "
    "incl. running the scenario inside the forked worker.  Non-trivial = discipline / MDA pickled after >= 1 real execution "
    "and >= 1 linearisation; scenario after >= 1 run; problem after a driver run; function after >= 1 evaluation; space with "
    "built normalisation data and a current value; distinct = structural hash of the drawn case."
)
ASSUMPTIONS = [
    "original and restored object live in one Python version / platform (no cross-version pickles)",
    "python callables wrapped by AutoPyDiscipline / ArrayBasedFunctionDiscipline / MDOFunction are importable module-level "
    "objects (lambdas and local closures are unpicklable by Python itself, not by gemseo)",
    "two live HDF5Cache objects on one node keep separate in-memory hash indices, so after restoring, new entries are only "
    "written through the restored object; values for new inputs are then compared with an identically built and identically "
    "used twin of the original that has a process-local MemoryFullCache (same hit / miss pattern)",
    "generated points stay in the valid domain of the recipe (relative perturbation bounded per recipe); bit-identical "
    "comparison is sound because both objects run the same code on the same floats in the same process (or a fork of it)",
    "thread-parallel processes (MDOParallelChain, MDAJacobi) compute each discipline deterministically",
    "an operation that raises on the original must raise the same exception type on the restored object (counted as a class)",
    "a case whose library calls do not terminate within 300 s (seen once: SLSQP on an inconsistent equality system, before any "
    "pickling) is abandoned and listed as inconclusive; it is neither a pass nor a violation",
    "saving and loading interpreters differ only by their hash seed (same machine, same libraries): bit-identical results are "
    "required; local data after a finite-difference linearisation (last perturbed input, iteration-order dependent) are not compared",
    "random samples of a ParameterSpace are compared for OpenTURNS distributions only (global generator re-seeded before each "
    "call); SciPy frozen distributions pickle a private copy of the RandomState, which is SciPy's documented behaviour",
]

CACHES = ["Simple", "Simple", "None", "MemoryFull", "HDF5", "HDF5"]
CHANNELS = ["dumps", "dumps", "file", "fork"]
MUTATIONS = ["defaults_inplace", "defaults_rebind", "defaults_delete", "local_data", "diff", "counters", "cache_clear", "execute"]
DEFAULTS_MUTATIONS = ("defaults_inplace", "defaults_rebind", "defaults_delete")


# ======================================================================================
# safety net against non-terminating library calls
# ======================================================================================
WATCHDOG_S = 300


class _Inconclusive(BaseException):
    """A case did not terminate (e.g. SLSQP looping on repeated database hits): recorded, never a verdict."""


def guarded(case_fn):
    """Abandon a case after WATCHDOG_S seconds and record it as inconclusive (no verdict either way)."""
    import functools
    import signal

    @functools.wraps(case_fn)
    def wrapper(p, ctx):
        def handler(signum, frame):
            raise _Inconclusive

        old = signal.signal(signal.SIGALRM, handler)
        signal.alarm(WATCHDOG_S)
        try:
            return case_fn(p, ctx)
        except _Inconclusive:
            ctx.cls("inconclusive:case_abandoned_by_watchdog")
            line = f"{case_fn.__name__}: a case did not terminate within {WATCHDOG_S} s and was abandoned: {str(p)[:300]}"
            if line not in ctx.inconclusive:
                ctx.inconclusive.append(line)
        finally:
            signal.alarm(0)
            signal.signal(signal.SIGALRM, old)

    return wrapper


# ======================================================================================
# generic deep comparison
# ======================================================================================
def _dense(x):
    """Dense ndarray view of an array / sparse matrix / linear operator."""
    if isinstance(x, np.ndarray):
        return x
    if hasattr(x, "toarray"):
        return np.asarray(x.toarray())
    if hasattr(x, "shape") and hasattr(x, "dot") and len(getattr(x, "shape", ())) == 2:
        return np.asarray(x.dot(np.eye(x.shape[1])))
    return x


FOREIGN = ("foreign memory",)


def plain(obj, depth=0):
    """Deep copy of ``obj`` into comparable plain data (arrays copied, operators densified)."""
    from pydantic import BaseModel

    if depth > 12:
        return ("<deep>", type(obj).__name__)
    if obj is None or isinstance(obj, (bool, int, float, complex, str, bytes)):
        return obj
    if isinstance(obj, Enum):
        return ("enum", type(obj).__name__, obj.value)
    if isinstance(obj, np.ndarray):
        root = obj
        while isinstance(root.base, np.ndarray):
            root = root.base
        if root.base is None and not root.flags.owndata:
            # view of memory owned by foreign code (e.g. a MINPACK work array seen through a callback
            # argument, left in the local data of the sub-disciplines of MDAQuasiNewton): undefined content
            return FOREIGN
        return np.array(obj, copy=True)
    if isinstance(obj, np.generic):
        return obj.item()
    if isinstance(obj, PurePath):
        return ("path", str(obj))
    if isinstance(obj, BaseModel):
        out = {}
        for name in type(obj).model_fields:
            out[name] = plain(getattr(obj, name), depth + 1)
        return ("model", type(obj).__name__, out)
    if isinstance(obj, dict) or (hasattr(obj, "keys") and hasattr(obj, "__getitem__") and hasattr(obj, "items")):
        return {("k", str(k)): plain(v, depth + 1) for k, v in obj.items()}
    if isinstance(obj, (list, tuple)):
        return [plain(v, depth + 1) for v in obj]
    if isinstance(obj, (set, frozenset)):
        return ("set", sorted(repr(v) for v in obj))
    if hasattr(obj, "toarray") or (hasattr(obj, "matvec") and hasattr(obj, "shape")):
        # compared by value: a Jacobian read back from an HDF5 cache is CSR whatever the stored format was
        return ("matrix", np.array(_dense(obj), copy=True))
    if isinstance(obj, type):
        return ("class", obj.__qualname__)
    if callable(obj) and hasattr(obj, "__qualname__"):
        return ("callable", obj.__qualname__)
    return ("object", type(obj).__qualname__)


def K(name: str):
    """Key of a ``plain`` dictionary."""
    return ("k", name)


LOOSE_DTYPE = [False]  # HDF5 caches give back float64 / CSR data: values are compared, not the dtype


def diff(a, b, path="") -> str | None:
    """First difference between two ``plain`` structures (None when equal; exact, NaN == NaN)."""
    if (isinstance(a, tuple) and a == FOREIGN) or (isinstance(b, tuple) and b == FOREIGN):
        return None
    if isinstance(a, np.ndarray) or isinstance(b, np.ndarray):
        if not (isinstance(a, np.ndarray) and isinstance(b, np.ndarray)):
            return f"{path}: {type(a).__name__} vs {type(b).__name__}"
        if a.dtype != b.dtype:
            if not (LOOSE_DTYPE[0] and a.dtype.kind in "fc" and b.dtype.kind in "fc"):
                return f"{path}: dtype {a.dtype} vs {b.dtype}"
            a, b = a.astype(complex), b.astype(complex)
        if a.shape != b.shape:
            return f"{path}: shape {a.shape} vs {b.shape}"
        if a.dtype.kind in "fc":
            ok = bool(np.all((a == b) | (np.isnan(a) & np.isnan(b))))
        else:
            ok = bool(np.array_equal(a, b))
        return None if ok else f"{path}: values {a.tolist()!r:.200} vs {b.tolist()!r:.200}"
    if type(a) is not type(b) and not (isinstance(a, (int, float)) and isinstance(b, (int, float)) and not isinstance(a, bool) and not isinstance(b, bool)):
        return f"{path}: {type(a).__name__} {a!r:.80} vs {type(b).__name__} {b!r:.80}"
    if isinstance(a, dict):
        if set(a) != set(b):
            return f"{path}: keys {sorted(k[1] for k in a)} vs {sorted(k[1] for k in b)}"
        for k in a:
            d = diff(a[k], b[k], f"{path}/{k[1]}")
            if d:
                return d
        return None
    if isinstance(a, (list, tuple)):
        if len(a) != len(b):
            return f"{path}: length {len(a)} vs {len(b)}"
        for i, (x, y) in enumerate(zip(a, b)):
            d = diff(x, y, f"{path}[{i}]")
            if d:
                return d
        return None
    if isinstance(a, float) and isinstance(b, float) and a != a and b != b:
        return None
    return None if a == b else f"{path}: {a!r:.120} vs {b!r:.120}"


# ======================================================================================
# what a discipline-like object exposes
# ======================================================================================
def _accepts(grammar, data) -> bool:
    from gemseo.core.grammars.errors import InvalidDataError

    try:
        grammar.validate(data)
    except InvalidDataError:
        return False
    return True


def grammar_view(grammar, probe) -> dict:
    """Names (ordered), required names, defaults and accept/reject decisions on three probes."""
    view = {
        "class": type(grammar).__name__,
        "name": grammar.name,
        "names": list(grammar),
        "required": sorted(grammar.required_names),
        "defaults": dict(grammar.defaults),
        "to_namespaced": dict(grammar.to_namespaced),
        "from_namespaced": dict(grammar.from_namespaced),
    }
    # what the grammar types document beyond names and types: JSON and Pydantic grammars have a schema and
    # element descriptions (set_descriptions); simple grammars keep the bare types
    kind = type(grammar).__name__
    if kind == "JSONGrammar":
        view["schema"] = grammar.schema
        view["descriptions"] = {n: grammar.schema.get("properties", {}).get(n, {}).get("description") for n in grammar}
    elif kind == "PydanticGrammar":
        # (PydanticGrammar.schema does not rebuild a model whose rebuild is pending - a validation does - and
        # pydantic cannot generate a schema for bare ndarray fields: the outcome, whatever it is, must be the same)
        _accepts(grammar, {n: np.array([1.0]) for n in grammar})
        view["schema"] = list(_call(lambda: grammar.schema))
        view["descriptions"] = {n: grammar[n].description for n in grammar}
        view["annotations"] = {n: repr(grammar[n].annotation) for n in grammar}
    else:
        view["types"] = {n: repr(grammar[n]) for n in grammar}
    if probe is not None:
        full = {k: v for k, v in probe.items() if k in grammar}
        view["accepts_full"] = _accepts(grammar, full)
        req = sorted(grammar.required_names)
        if req and req[0] in full:
            missing = dict(full)
            del missing[req[0]]
            view["accepts_missing_required"] = _accepts(grammar, missing)
        if full:
            wrong = dict(full)
            wrong[sorted(full)[0]] = "not an array"
            view["accepts_wrong_type"] = _accepts(grammar, wrong)
    return view


def cache_view(cache) -> dict | None:
    if cache is None:
        return None
    view = {"class": type(cache).__name__, "tolerance": cache.tolerance, "len": len(cache), "name": cache.name}
    if type(cache).__name__ == "HDF5Cache":
        view["file"] = str(cache.hdf_file.hdf_file_path)
        view["node"] = cache.hdf_node_path
    # reading may fail for reasons of the cache format (e.g. a ragged Jacobian in an HDF5 node): the failure
    # itself is then what both objects must have in common
    def read():
        out = {}
        if len(cache):
            last = cache.last_entry
            out["last_entry"] = {"in": dict(last.inputs), "out": dict(last.outputs)}
        entries = []
        # (get_all_entries() of an empty HDF5Cache raises an AssertionError: outside this property)
        for entry in cache.get_all_entries() if len(cache) else ():
            entries.append({"in": dict(entry.inputs), "out": dict(entry.outputs), "jac": {k: dict(v) for k, v in (entry.jacobian or {}).items()}})
        out["entries"] = entries
        return out

    status, content = _call(read)
    if status == "ok":
        view.update(content)
    else:
        view["unreadable"] = content
    return view


def snapshot(d, stats: bool, probe=None, depth=0) -> dict:
    """Everything the statement lists as 'exposed' by a discipline / chain / MDA (plain, copied)."""
    snap = {
        "class": type(d).__qualname__,
        "name": d.name,
        "input_grammar": grammar_view(d.io.input_grammar, probe),
        "output_grammar": grammar_view(d.io.output_grammar, None),
        "default_input_data": dict(d.default_input_data) if hasattr(d, "default_input_data") else dict(d.io.input_grammar.defaults),
        "cache": cache_view(d.cache),
        "local_data": dict(d.io.data),
        "status": d.execution_status.value,
        "residual_to_state": dict(d.io.residual_to_state_variable),
    }
    if hasattr(d, "linearization_mode"):
        snap["linearization_mode"] = d.linearization_mode
        snap["diff_in"] = sorted(d._differentiated_input_names)
        snap["diff_out"] = sorted(d._differentiated_output_names)
        snap["jac"] = {o: dict(v) for o, v in (d.jac or {}).items()}
        snap["has_jac_approx"] = d._jac_approx is not None
    if stats:
        snap["n_executions"] = d.execution_statistics.n_executions
        snap["n_linearizations"] = d.execution_statistics.n_linearizations
    if hasattr(d, "settings") and hasattr(d, "coupling_structure"):  # MDA
        snap["settings"] = d.settings
        snap["residual_history"] = list(d.residual_history)
        snap["normed_residual"] = d.normed_residual
        snap["scaling"] = d.scaling
        snap["matrix_type"] = d.matrix_type
        snap["lin_cache_tol_fact"] = d.lin_cache_tol_fact
        snap["strong_couplings"] = list(d.coupling_structure.strong_couplings)
        snap["all_couplings"] = list(d.coupling_structure.all_couplings)
    if hasattr(d, "disciplines") and depth < 3:
        snap["disciplines"] = [snapshot(s, stats, None, depth + 1) for s in d.disciplines if hasattr(s, "io")]
    return plain(snap) if depth == 0 else snap


# ======================================================================================
# channels
# ======================================================================================
def _worker(conn):
    """Forked worker: receive (object, action), run the action, send the object back."""
    try:
        obj, action = conn.recv()
        kind = action[0]
        raised = None
        try:
            if kind == "execute":
                obj.execute(action[1])
            elif kind == "evaluate":
                obj.evaluate(action[1])
            elif kind == "scenario":
                obj.execute(**action[1])
        except Exception as exc:  # noqa: BLE001 - reported to the parent, which runs the same action on the original
            raised = type(exc).__name__
        conn.send(("ok", obj, raised))  # "noop": the object only travels
    except BaseException as exc:  # noqa: BLE001
        try:
            conn.send(("error", f"{type(exc).__name__}: {exc}", traceback.format_exc()))
        except BaseException:  # noqa: BLE001
            pass
    finally:
        conn.close()


WORKER_RAISED = [None]  # exception type raised by the action in the last worker (None: it ran)


def through_worker(obj, action, ctx):
    mp = multiprocessing.get_context("fork")
    parent, child = mp.Pipe()
    proc = mp.Process(target=_worker, args=(child,), daemon=True)
    proc.start()
    child.close()
    try:
        parent.send((obj, action))  # pickled here (a failure is raised from pickle / gemseo frames)
        if not parent.poll(WATCHDOG_S / 2):
            raise _Inconclusive  # the same action would not terminate here either: no verdict
        try:
            msg = parent.recv()  # unpickled here
        except EOFError:
            ctx.fail("fork_worker", "the forked worker died without answering")
        if msg[0] != "ok":
            ctx.fail("fork_worker", f"the worker could not restore / run / return the object: {msg[1]}", traceback=msg[2][-1500:])
        WORKER_RAISED[0] = msg[2]
        return msg[1]
    finally:
        parent.close()
        proc.join(5)
        if proc.is_alive():
            proc.kill()
            proc.join(5)


def roundtrip(obj, channel: str, protocol: int, tmp: str, ctx, action=None):
    """Send ``obj`` through the drawn channel and return the restored object.

    Any exception of the (C-implemented) pickler / unpickler is a failure of the statement
    "can be pickled and restored", not of the harness.
    """
    from gemseo.utils.pickle import from_pickle
    from gemseo.utils.pickle import to_pickle

    from vlib.core import Violation

    stage = "pickling"
    try:
        if channel == "dumps":
            blob = pickle.dumps(obj, protocol=protocol)
            stage = "unpickling"
            return pickle.loads(blob)
        if channel == "file":
            path = os.path.join(tmp, "obj.pkl")
            to_pickle(obj, path)
            stage = "unpickling"
            return from_pickle(path)
        return through_worker(obj, action, ctx)
    except Violation:
        raise
    except Exception as exc:  # noqa: BLE001
        ctx.fail("picklable", f"{stage} a {type(obj).__name__} through '{channel}' raises {type(exc).__name__}: {exc}")


# ======================================================================================
# strategies
# ======================================================================================
def _u():
    return st.lists(st.floats(-1, 1, allow_nan=False).map(lambda v: round(v, 3) + 0.0), min_size=1, max_size=4)


def _weighted(kinds):
    names = []
    for name, rec in R.RECIPES.items():
        if rec.kind in kinds:
            names.extend([name] * rec.weight)
    return names


PRE_OPS = ["exec", "exec", "exec_same", "lin_all", "lin_all", "lin", "lin", "defaults", "approx", "scenario",
           "g_restrict", "g_restrict", "g_update", "g_rename", "g_describe", "g_describe"]
EXTRA_INPUT = "c20_extra"  # optional input added to / renamed in / removed from the input grammar by the g_* steps


def _second():
    """A second serialisation generation: mutate the restored object, serialise it again, restore."""
    return st.fixed_dictionaries({
        "mutations": st.lists(st.sampled_from(MUTATIONS), min_size=1, max_size=3, unique=True),
        "channel": st.sampled_from(["dumps", "file"]),
    })


@st.composite
def discipline_cases(draw, recipe: str | None = None):
    name = recipe or draw(st.sampled_from(_weighted(("discipline", "mda"))))
    rec = R.RECIPES[name]
    pre = draw(st.lists(
        st.fixed_dictionaries({"op": st.sampled_from(PRE_OPS), "u": _u(), "k": st.integers(0, 7), "partial": st.booleans()}),
        min_size=0, max_size=4,
    ))
    return {
        "recipe": name,
        "args": draw(rec.args),
        "gi": draw(st.integers(0, 7)),
        "cache": draw(st.sampled_from(CACHES)),
        "cache_tol": draw(st.sampled_from([0.0, 0.0, 1e-12])),
        "cache_name": draw(st.sampled_from(["", "my cache"])),
        "stats": draw(st.integers(0, 9)) > 0,
        "pre": pre,
        "channel": draw(st.sampled_from(CHANNELS)),
        "protocol": draw(st.sampled_from([2, 4, 5])),
        "worker_u": draw(_u()),
        "post": draw(st.lists(
            st.fixed_dictionaries({"u": _u(), "partial": st.booleans(), "lin": st.sampled_from(["no", "all", "subset"]), "k": st.integers(0, 7)}),
            min_size=1, max_size=3,
        )),
        "mutate_restored": draw(st.booleans()),
        "mutations": draw(st.lists(st.sampled_from(MUTATIONS), min_size=1, max_size=4, unique=True)),
        "second": draw(st.one_of(st.none(), _second(), _second())),
        "seed": draw(st.integers(0, 3)),
    }


# ======================================================================================
# the discipline / chain / MDA oracle
# ======================================================================================
class Life:
    """Builds an object from the payload and replays operations on it (also used for the twin)."""

    def __init__(self, p, cache_kind: str, tmp: str):
        self.p = p
        self.rec = R.RECIPES[p["recipe"]]
        self.args = p["args"]
        if p["cache"] == "HDF5" and (self.args.get("complex") or self.args.get("free")):
            # HDF5 caches store real arrays only (no complex part, no linear operator): those variants are
            # exercised with the other caches
            self.args = {**self.args, "complex": False, "free": False}
        self.gtype = self.rec.grammars[p["gi"] % len(self.rec.grammars)]
        np.random.seed(p["seed"])
        classes = self.rec.gclasses() if self.rec.gclasses else ()
        with R.grammar_type(self.gtype if classes else None, classes):
            self.obj = self.rec.build(self.args)
        d = self.obj
        self.is_mda = hasattr(d, "coupling_structure")
        self.base = (self.rec.base or R.default_base)(d, self.args)
        self.fd = self.rec.approx or bool(self.rec.needs_fd and self.rec.needs_fd(self.args))
        if self.fd:
            d.set_jacobian_approximation()
        if cache_kind == "HDF5" and any(not isinstance(v, np.ndarray) for v in self.base.values()):
            cache_kind = "Simple"  # HDF5 caches store arrays only (e.g. the integer 'fidelity' of RosenMF is rejected)
        self.cache_kind = cache_kind
        tol = float(p.get("cache_tol", 0.0))
        if cache_kind == "None":
            d.set_cache(d.CacheType.NONE)
        elif cache_kind == "Simple" and tol:
            d.set_cache(d.CacheType.SIMPLE, tolerance=tol)
        elif cache_kind == "MemoryFull":
            d.set_cache(d.CacheType.MEMORY_FULL, tolerance=tol)
        elif cache_kind == "MemoryFullLocal":  # the twin of an HDF5-cached object: keeps every entry as well
            d.set_cache(d.CacheType.MEMORY_FULL, tolerance=tol, is_memory_shared=False)
        elif cache_kind == "HDF5":
            named = {"name": p["cache_name"]} if p.get("cache_name") else {}  # a cache name of its own (default: the node path)
            d.set_cache(d.CacheType.HDF5, tolerance=tol, hdf_file_path=os.path.join(tmp, "cache.h5"), hdf_node_path="c20_node", **named)
        self.last_input = None
        self.history = []  # every point the object was executed / linearized at
        self.n_exec = 0
        self.n_lin = 0
        self.flags = set()

    # ----- helpers
    def point(self, u, partial=False):
        data = R.make_inputs(self.base, self.rec.radius, u)
        if partial:
            defaults = self.obj.io.input_grammar.defaults
            names = [n for n in sorted(data) if n in defaults]
            if len(names) >= 1 and len(data) > 1:
                del data[names[len(u) % len(names)]]
        return data

    def diff_candidates(self):
        d = self.obj
        ins = [n for n in d.io.input_grammar if isinstance(self.base.get(n), np.ndarray)]
        if self.is_mda:
            couplings = set(d.coupling_structure.all_couplings)
            ins = [n for n in ins if n not in couplings]
        return ins, list(d.io.output_grammar)

    def linearize(self, obj, data, mode: str, k: int):
        """linearize(all) or linearize(differentiated subset); MDAs never differentiate w.r.t. couplings."""
        ins, outs = self.diff_candidates()
        if mode == "all" and not self.is_mda:
            return obj.linearize(data, compute_all_jacobians=True)
        if mode == "all":
            sel_in, sel_out = ins, outs
        else:
            sel_in = [ins[k % len(ins)]] if ins else []
            sel_out = [outs[(k // 2) % len(outs)]] if outs else []
        if not sel_in or not sel_out:
            obj.execute(data)
            return {}
        obj.add_differentiated_inputs(sel_in)
        obj.add_differentiated_outputs(sel_out)
        return obj.linearize(data)

    def apply(self, op) -> None:
        """One step of the life before pickling.

        An operation that gemseo itself rejects on the original (unrelated defects / unsupported
        combinations, e.g. a DOE with Jacobians over a matrix-free discipline) is part of the life:
        the object is pickled in the state the failure left it in; the class is counted.
        """
        from vlib.core import is_harness_fault

        try:
            self._apply(op)
        except Exception as exc:  # noqa: BLE001
            if is_harness_fault(exc) and not isinstance(exc, R.DeliberateFailure):
                raise
            self.flags.add(f"pre_op_raises:{op['op']}:{type(exc).__name__}")

    def _apply(self, op) -> None:
        d = self.obj
        kind = op["op"]
        if kind in ("lin", "lin_all", "approx") and not self.rec.linearizable:
            kind = "exec"
        if kind == "exec_same" and self.last_input is None:
            kind = "exec"
        if kind == "exec":
            self.last_input = self.point(op["u"], op["partial"])
            self.history.append(self.last_input)
            d.execute(self.last_input)
            self.n_exec += 1
        elif kind == "exec_same":
            d.execute(self.last_input)
            self.flags.add("repeated_execute")
        elif kind in ("lin", "lin_all"):
            self.last_input = self.point(op["u"], op["partial"])
            self.history.append(self.last_input)
            self.linearize(d, self.last_input, "all" if kind == "lin_all" else "subset", op["k"])
            self.n_exec += 1
            self.n_lin += 1
        elif kind == "defaults":
            new = self.point(op["u"])
            names = [n for n in sorted(new) if isinstance(new[n], np.ndarray) and n in d.io.input_grammar]
            if names:
                name = names[op["k"] % len(names)]
                d.io.input_grammar.defaults[name] = new[name]
                self.flags.add("rebound_default")
        elif kind == "approx":
            if self.rec.stateful and self.p["cache"] == "HDF5":
                # History-dependent processes (warm-started, loosely converged MDAs) sharing one HDF5 file: the restored
                # object is served the perturbed points that the original computed with its own warm-start state, so
                # approximated Jacobians differ by noise / step (1.5e-7 found by the thorough tier at seed 5). Not drawn.
                self.flags.add("fd_mode_skipped_for_stateful_process_on_a_shared_file")
                return
            d.set_jacobian_approximation(jax_approx_step=1e-6)
            self.flags.add("fd_mode")
        elif kind == "scenario":
            self.scenario_run(op)
        elif kind == "g_update":
            # a new optional input with a default value (ignored by the body of the discipline)
            grammar = d.io.input_grammar
            if EXTRA_INPUT not in grammar and EXTRA_INPUT + "_renamed" not in grammar:
                grammar.update_from_data({EXTRA_INPUT: np.array([1.0])})
                grammar.required_names.discard(EXTRA_INPUT)
                grammar.defaults[EXTRA_INPUT] = np.array([float(op["k"])])
                self.flags.add("grammar_updated")
        elif kind == "g_describe":
            # element descriptions (JSON and Pydantic grammars document them)
            for grammar, which in ((d.io.input_grammar, "input"), (d.io.output_grammar, "output")):
                names = list(grammar)
                if hasattr(grammar, "set_descriptions") and names:
                    chosen = {names[(op["k"] + j) % len(names)] for j in range(2)}
                    grammar.set_descriptions({n: f"The {which} {n} (text {op['k']})." for n in chosen})
                    self.flags.add("grammar_described")
        elif kind == "g_rename":
            grammar = d.io.input_grammar
            if EXTRA_INPUT in grammar:
                grammar.rename_element(EXTRA_INPUT, EXTRA_INPUT + "_renamed")
                self.flags.add("grammar_renamed")
        elif kind == "g_restrict":
            # remove one element: the added input if there is one, else one of several outputs
            extra = [n for n in d.io.input_grammar if n.startswith(EXTRA_INPUT)]
            outs = list(d.io.output_grammar)
            if extra:
                d.io.input_grammar.restrict_to([n for n in d.io.input_grammar if n not in extra])
                self.flags.add("grammar_restricted:input")
            elif len(outs) >= 2:
                removed = outs[op["k"] % len(outs)]
                d.io.output_grammar.restrict_to([n for n in outs if n != removed])
                if hasattr(d, "_differentiated_output_names") and removed in d._differentiated_output_names:
                    d._differentiated_output_names.remove(removed)
                self.flags.add("grammar_restricted:output")
            if self.n_exec or self.n_lin:
                self.flags.add("grammar_restricted_after_use")

    def scenario_run(self, op) -> None:
        """Drive the object by a small DOE scenario (DisciplinaryOpt, CustomDOE on one input)."""
        from gemseo import create_scenario
        from gemseo.algos.design_space import DesignSpace

        d = self.obj
        ins, outs = self.diff_candidates()
        ins = [n for n in ins if self.base[n].dtype.kind == "f" and self.base[n].ndim == 1]
        complete = all(n in d.io.input_grammar.defaults for n in d.io.input_grammar)
        if not ins or not outs or not complete:
            return self._apply({**op, "op": "exec"})
        name = ins[op["k"] % len(ins)]
        pts = [self.point(op["u"])[name], self.point([-v for v in op["u"]])[name]]
        samples = np.vstack(pts)
        space = DesignSpace()
        space.add_variable(name, size=samples.shape[1], lower_bound=samples.min(axis=0) - 1.0, upper_bound=samples.max(axis=0) + 1.0, value=samples[0])
        scenario = create_scenario([d], outs[(op["k"] // 2) % len(outs)], space, formulation_name="DisciplinaryOpt", scenario_type="DOE")
        scenario.execute(algo_name="CustomDOE", samples=samples, eval_jac=bool(op["partial"]) and self.rec.linearizable)
        self.n_exec += 1
        if op["partial"] and self.rec.linearizable:
            self.n_lin += 1
        self.flags.add("after_scenario_run")
        self.last_input = None


def _cp(data):
    """A private copy of an input point (gemseo keeps the caller's arrays in its local data)."""
    return {k: (np.array(v, copy=True) if isinstance(v, np.ndarray) else copy.deepcopy(v)) for k, v in data.items()}


def _call(fn):
    """Run fn; return ("ok", value) or ("raises", exception type name)."""
    from vlib.core import Violation
    from vlib.core import is_harness_fault

    try:
        return "ok", fn()
    except Violation:
        raise
    except Exception as exc:  # noqa: BLE001
        if is_harness_fault(exc) and not isinstance(exc, R.DeliberateFailure):
            raise
        return "raises", type(exc).__name__


@guarded
def case_discipline(p, ctx):
    from gemseo.core.execution_statistics import ExecutionStatistics

    rec = R.RECIPES[p["recipe"]]
    tmp = tempfile.mkdtemp(dir=os.environ.get("VERIF_SCRATCH"))
    saved_stats = ExecutionStatistics.is_enabled
    try:
        ExecutionStatistics.is_enabled = bool(p["stats"])
        LOOSE_DTYPE[0] = p["cache"] == "HDF5"
        _discipline_body(p, ctx, rec, tmp)
    finally:
        ExecutionStatistics.is_enabled = saved_stats
        LOOSE_DTYPE[0] = False
        _forget_hdf5(tmp)
        shutil.rmtree(tmp, ignore_errors=True)


def _contains(d, class_name: str, depth=0) -> bool:
    if type(d).__name__ == class_name or (class_name == "SobieskiAerodynamics" and type(d).__name__ == "SobieskiAerodynamicsSG"):
        return True  # (the SimpleGrammar variant shares the __setstate__ of the open finding C20-F5; thorough tier, seed 6)
    return depth < 4 and any(_contains(s, class_name, depth + 1) for s in getattr(d, "disciplines", ()) or ())


def _seen(data, seen) -> bool:
    """Whether the completed point may already be in the cache (None in ``seen``: unknown points were run)."""
    for old in seen:
        if old is None:
            return True
        common = set(old) & set(data)
        if all(np.array_equal(old[k], data[k]) for k in common):
            return True  # differing only by defaulted names: conservatively a possible hit
    return False


def _has_operator_block(jac) -> bool:
    return any(not isinstance(b, np.ndarray) and not hasattr(b, "toarray") for blocks in (jac or {}).values() for b in blocks.values())


def _forget_hdf5(tmp: str) -> None:
    """Drop the per-file singletons of this case's scratch files."""
    from gemseo.caches._hdf5_file_singleton import HDF5FileSingleton

    instances = type(HDF5FileSingleton).instances
    for key in [k for k in instances if os.path.realpath(tmp) in str(k[1])]:
        del instances[key]


def _discipline_body(p, ctx, rec, tmp):
    stats = bool(p["stats"])
    cache_kind = p["cache"]
    channel = p["channel"]
    life = Life(p, cache_kind, tmp)
    cache_kind = life.cache_kind
    orig = life.obj
    ctx.cls(f"recipe:{p['recipe']}", f"class:{type(orig).__name__}", f"grammar:{life.gtype}", f"cache:{cache_kind}", f"channel:{channel}")
    for op in p["pre"]:
        life.apply(op)
    moment = "fresh" if not p["pre"] else ("used" if life.n_exec else "configured")
    ctx.cls(f"moment:{moment}", *(f"state:{f}" for f in sorted(life.flags)))
    if life.n_exec:
        ctx.cls("moment:after_execution")
    if life.n_lin:
        ctx.cls("moment:after_linearization")

    if cache_kind == "MemoryFull" and ctx.known("memory_full_cache_unpicklable"):
        return
    if type(orig).__name__.endswith("SG") and "Sobieski" in type(orig).__name__ and ctx.known("sobieski_sg_unpicklable"):
        return
    if getattr(orig, "matrix_free_jacobian", False) and _has_operator_block(orig.jac) and ctx.known("linear_discipline_matrix_free_jac_unpicklable"):
        return

    if cache_kind == "HDF5" and orig.cache._last_accessed_index.value != orig.cache._max_index.value and ctx.known("hdf5_last_entry_not_restored"):
        return

    no_restored_linearize = _contains(orig, "SobieskiAerodynamics") and ctx.known("sobieski_aerodynamics_linearize_after_restore", count=False)

    # the twin is only needed where the original may not write new cache entries any more
    twin = None
    if cache_kind == "HDF5":
        twin_life = Life(p, "MemoryFullLocal", tmp)
        for op in p["pre"]:
            twin_life.apply(op)
        twin = twin_life.obj

    worker_input = life.point(p["worker_u"])
    probe = life.point([0.0])
    before = snapshot(orig, stats, probe)

    # ------------------------------------------------------------------ the channel
    restored = roundtrip(orig, channel, p["protocol"], tmp, ctx, action=("execute", _cp(worker_input)))
    ctx.check(type(restored) is type(orig), "restored_type", f"restored object is a {type(restored).__name__}, original a {type(orig).__name__}")
    ctx.check(restored is not orig, "restored_type", "the channel returned the original object itself")
    if channel == "fork":
        # the worker executed once more: do the same on the reference side
        ref_for_worker = twin if twin is not None else orig
        r = _call(lambda: ref_for_worker.execute(_cp(worker_input)))
        ctx.check((r[1] if r[0] == "raises" else None) == WORKER_RAISED[0], "fork_worker",
                  f"executing in the worker: {WORKER_RAISED[0] or 'ok'}; executing the original here: {r[1] if r[0] == 'raises' else 'ok'}")
        if twin is None:
            before = snapshot(orig, stats, probe)
        else:
            # original (HDF5) is not executed: compare what does not depend on that execution
            before = None

    # ------------------------------------------------------------------ exposed state
    after = snapshot(restored, stats, probe)
    if before is not None:
        d = diff(before, after)
        ctx.check(d is None, "exposed_state", f"restored object differs from the original at pickling time: {d}")
    else:
        ref_snap = snapshot(twin, stats, probe)
        for key in ("class", "name", "input_grammar", "output_grammar", "default_input_data", "local_data", "linearization_mode", "diff_in", "diff_out", "settings"):
            if K(key) in ref_snap:
                d = diff(ref_snap[K(key)], after[K(key)], key)
                ctx.check(d is None, "exposed_state", f"restored object (through the worker) differs from the reference: {d}")
    if stats and channel != "fork":
        ctx.check(after[K("n_executions")] == before[K("n_executions")] and after[K("n_linearizations")] == before[K("n_linearizations")],
                  "counters_carry_over", "execution / linearisation counters are not carried over as values")

    # ------------------------------------------------------------------ HDF5: same file / node, entries visible, hits
    if cache_kind == "HDF5":
        oc, rc = orig.cache, restored.cache
        ctx.check(type(rc).__name__ == "HDF5Cache", "hdf5_attached", f"restored cache is a {type(rc).__name__}")
        ctx.check(str(rc.hdf_file.hdf_file_path) == str(oc.hdf_file.hdf_file_path) and rc.hdf_node_path == oc.hdf_node_path,
                  "hdf5_attached", "restored HDF5Cache points to another file / node")
        ctx.check(len(rc) >= len(oc) and (channel == "fork" or len(rc) == len(oc)), "hdf5_attached",
                  f"restored HDF5Cache sees {len(rc)} entries, the file holds {len(oc)}")
        ctx.cls("hdf5:restored_attached")
    if life.last_input is not None and cache_kind != "None" and channel != "fork":
        # re-executing the last pre-pickling input: a hit on the original must be a hit on the restored object
        # (HDF5: the original does not touch the shared node any more, its identically used twin stands in)
        same = twin if twin is not None else orig
        n_o = same.execution_statistics.n_executions if stats else None
        n_r = restored.execution_statistics.n_executions if stats else None
        o1 = _call(lambda: plain(dict(same.execute(_cp(life.last_input)))))
        o2 = _call(lambda: plain(dict(restored.execute(_cp(life.last_input)))))
        ctx.check(o1[0] == o2[0], "cache_hit", f"re-executing the last input: original {o1[0]}, restored {o2[0]} ({o1[1] if o1[0] == 'raises' else o2[1]})"[:300])
        d = diff(o1[1], o2[1])
        ctx.check(d is None, "cache_hit", f"re-executing the last input gives different data: {d}")
        if stats:
            d_o = same.execution_statistics.n_executions - n_o
            d_r = restored.execution_statistics.n_executions - n_r
            ctx.check(d_o == d_r, "cache_hit", f"re-executing the last input ran the original {d_o} time(s) and the restored object {d_r} time(s)")
            ctx.cls("cache_hit_on_both" if d_o == 0 else "cache_miss_on_both")

    # ------------------------------------------------------------------ behaviour on generated inputs
    ref = twin if twin is not None else orig
    aero_alone = orig if type(orig).__name__ in ("SobieskiAerodynamics", "SobieskiAerodynamicsSG") else None
    seen = list(life.history) + ([worker_input] if channel == "fork" else [])
    if "after_scenario_run" in life.flags:
        seen.append(None)  # points chosen by the DOE: any later point may be a hit
    recorded = []
    replayable = []
    failed_op = False  # an operation rejected by gemseo leaves the objects in status FAILED: later results depend on it
    for post in p["post"]:
        data = life.point(post["u"], post["partial"])
        mode = post["lin"] if rec.linearizable else "no"
        if mode != "no" and no_restored_linearize and (orig is not aero_alone or _seen(data, seen)):
            # (a lone SobieskiAerodynamics is only affected when the point may hit its cache)
            ctx.known("sobieski_aerodynamics_linearize_after_restore")  # counted; the point is executed instead
            mode = "no"
        seen.append(data)
        replayable.append((data, mode, post["k"], post["partial"]))
        if mode == "no":
            r1 = _call(lambda: plain(dict(ref.execute(_cp(data)))))
            r2 = _call(lambda: plain(dict(restored.execute(_cp(data)))))
            what = "execute"
        else:
            r1 = _call(lambda: plain({o: dict(v) for o, v in life.linearize(ref, _cp(data), mode, post["k"]).items()}))
            r2 = _call(lambda: plain({o: dict(v) for o, v in life.linearize(restored, _cp(data), mode, post["k"]).items()}))
            what = f"linearize[{mode}]"
        if r1[0] == "raises":
            failed_op = True
            ctx.cls(f"original_raises:{r1[1]}")
            ctx.check(r2 == r1, "same_behaviour", f"{what}: original raises {r1[1]}, restored gives {r2[0]} {r2[1] if r2[0] == 'raises' else ''}")
            continue
        ctx.check(r2[0] == "ok", "same_behaviour", f"{what} works on the original but raises {r2[1]} on the restored object")
        d = diff(r1[1], r2[1])
        ctx.check(d is None, "same_behaviour", f"{what} on a generated input differs between original and restored: {d}", input=data)
        if mode != "no":
            l1, l2 = plain(dict(ref.io.data)), plain(dict(restored.io.data))
            d = diff(l1, l2)
            ctx.check(d is None, "same_behaviour", f"local data after {what} differ: {d}")
        recorded.append((data, mode, post["k"], r1[1]))
        ctx.cls(f"post:{what}")
    if stats:
        c1 = (ref.execution_statistics.n_executions, ref.execution_statistics.n_linearizations)
        c2 = (restored.execution_statistics.n_executions, restored.execution_statistics.n_linearizations)
        ctx.check(c1 == c2, "counters_evolve", f"counters after the same operations: reference {c1}, restored {c2}")

    # ------------------------------------------------------------------ independence
    if p["mutate_restored"] or twin is not None:
        mutated, untouched, who = restored, orig, "restored"
    else:
        mutated, untouched, who = orig, restored, "original"
    snap0 = snapshot(untouched, stats, probe)
    done = []
    for m in p["mutations"]:
        if _mutate(mutated, m, life, cache_kind, stats, p):
            done.append(m)
    snap1 = snapshot(untouched, stats, probe)
    if cache_kind == "HDF5":
        # the file is shared by design: what the node holds may change, nothing else
        snap0[K("cache")], snap1[K("cache")] = None, None
    d = diff(snap0, snap1)
    ctx.check(d is None, "independence", f"mutating the {who} object ({', '.join(done)}) changed the other one: {d}")
    for m in done:
        ctx.cls(f"mutation:{m}")
    if (untouched is not orig or twin is None) and not rec.stateful and not failed_op:
        # re-run the comparison on the untouched object: same values as before the mutation
        # (objects whose results depend on the call history are covered by the snapshot comparison only)
        for data, mode, k, expected in recorded:
            if mode != "no" and ("fd_mode" in life.flags or cache_kind in ("MemoryFull", "HDF5")):
                # a Jacobian cached before the switch to finite differences is not what a recomputation gives; after
                # a hit in a full cache a process linearizes its sub-disciplines where they were executed last
                continue
            if mode == "no":
                got = _call(lambda: plain(dict(untouched.execute(_cp(data)))))
            else:
                got = _call(lambda: plain({o: dict(v) for o, v in life.linearize(untouched, _cp(data), mode, k).items()}))
            ctx.check(got[0] == "ok", "independence", f"after mutating the {who} object the other one raises {got[1]}")
            value = got[1]
            if mode == "no":
                # a computed answer also carries items that are not in the (restricted) grammars, a cached one does not
                # (nor the value a sub-discipline computed for a name that is now only an input of the process)
                names = {K(n) for n in untouched.io.output_grammar}
                value = {k: v for k, v in value.items() if k in names}
                expected = {k: v for k, v in expected.items() if k in names}
            if mode == "subset":
                # differentiated names accumulate and a cache hit returns every stored block: compare the
                # blocks present in both answers
                value = {o: {i: blk for i, blk in value[o].items() if i in expected[o]} for o in value if o in expected}
                expected = {o: {i: blk for i, blk in expected[o].items() if i in value[o]} for o in expected if o in value}
            d = diff(expected, value)
            ctx.check(d is None, "independence", f"after mutating the {who} object ({', '.join(done)}) the other one computes different values: {d}")
    if p.get("second"):
        _second_generation(p, ctx, life, rec, restored, stats, probe, cache_kind, tmp, replayable)
    if life.n_exec >= 1 and life.n_lin >= 1:
        ctx.nontriv(("discipline", p))
        ctx.cls("nontrivial")
    ctx.sample({"oracle": "discipline", "recipe": p["recipe"], "args": p["args"], "grammar": life.gtype, "cache": cache_kind,
                "pre": [o["op"] for o in p["pre"]], "channel": channel, "mutations": p["mutations"]})


def _second_generation(p, ctx, life, rec, first, stats, probe, cache_kind, tmp, points) -> None:
    """Mutate the restored object, serialise it again and compare the second generation with it.

    The object serialised here was itself created by unpickling: whatever ``__setstate__`` left behind
    must not leak into the next ``__getstate__``.
    """
    second = p["second"]
    all_mutations = {"mutations": list(p["mutations"]) + list(second["mutations"])}
    done = [m for m in second["mutations"] if _mutate(first, m, life, cache_kind, stats, all_mutations)]
    before = snapshot(first, stats, probe)
    gen2 = roundtrip(first, second["channel"], p["protocol"], tmp, ctx)
    ctx.check(type(gen2) is type(first) and gen2 is not first, "restored_type", f"second generation is a {type(gen2).__name__}")
    d = diff(before, snapshot(gen2, stats, probe))
    ctx.check(d is None, "second_generation_state",
              f"object restored, modified ({', '.join(done) or 'nothing'}), serialised again and restored differs from what was serialised: {d}")
    for m in done:
        ctx.cls(f"second_generation_mutation:{m}")
    ctx.cls("second_generation")
    for data, mode, k, partial in points:
        if cache_kind == "HDF5" and (partial or mode != "no" or not all(n in data for n in first.io.input_grammar)):
            continue  # two live caches on one node: only points that are stored (hits, nothing written)
        if mode == "no":
            r1 = _call(lambda: plain(dict(first.execute(_cp(data)))))
            r2 = _call(lambda: plain(dict(gen2.execute(_cp(data)))))
            what = "execute"
        else:
            r1 = _call(lambda: plain({o: dict(v) for o, v in life.linearize(first, _cp(data), mode, k).items()}))
            r2 = _call(lambda: plain({o: dict(v) for o, v in life.linearize(gen2, _cp(data), mode, k).items()}))
            what = f"linearize[{mode}]"
        ctx.check(r1[0] == r2[0] and (r1[0] == "ok" or r1[1] == r2[1]), "second_generation_behaviour",
                  f"{what}: {r1[0]} {r1[1] if r1[0] == 'raises' else ''} on the serialised object, {r2[0]} {r2[1] if r2[0] == 'raises' else ''} on its restored copy")
        if r1[0] == "ok":
            d = diff(r1[1], r2[1])
            ctx.check(d is None, "second_generation_behaviour", f"{what} differs between the serialised object and its restored copy: {d}")
            ctx.cls(f"second_generation:{what}")
    if stats:
        c1 = (first.execution_statistics.n_executions, first.execution_statistics.n_linearizations)
        c2 = (gen2.execution_statistics.n_executions, gen2.execution_statistics.n_linearizations)
        ctx.check(c1 == c2, "second_generation_behaviour", f"counters after the same operations: {c1} vs {c2}")


def _mutate(d, what: str, life: Life, cache_kind: str, stats: bool, p) -> bool:
    """Mutate one of the two objects; returns whether something was changed."""
    defaults = d.io.input_grammar.defaults
    arrays = [n for n in sorted(defaults) if isinstance(defaults[n], np.ndarray) and defaults[n].size and defaults[n].dtype.kind in "fc"]
    if what == "defaults_inplace":
        arrays = [n for n in arrays if defaults[n].flags.writeable]
        if not arrays:
            return False
        for n in arrays:
            defaults[n] += 1.5
        return True
    if what == "defaults_rebind":
        if not arrays:
            return False
        defaults[arrays[0]] = defaults[arrays[0]] * 0.0 + 7.0
        return True
    if what == "defaults_delete":
        if not arrays:
            return False
        del defaults[arrays[-1]]
        return True
    if what == "local_data":
        changed = False
        for v in d.io.data.values():
            if isinstance(v, np.ndarray) and v.size and v.dtype.kind in "fc" and v.flags.writeable:
                v += 3.25
                changed = True
        d.io.data["__c20_extra__"] = np.array([1.0])
        return True or changed
    if what == "diff":
        if not hasattr(d, "add_differentiated_inputs"):
            return False
        ins, outs = life.diff_candidates()
        if not ins or not outs:
            return False
        d.add_differentiated_inputs(ins)
        d.add_differentiated_outputs(outs)
        for block in (d.jac or {}).values():
            for v in block.values():
                if isinstance(v, np.ndarray) and v.flags.writeable:
                    v += 1.0
        return True
    if what == "counters":
        if not stats:
            return False
        d.execution_statistics.n_executions = d.execution_statistics.n_executions + 10
        d.execution_statistics.n_linearizations = d.execution_statistics.n_linearizations + 20
        return True
    if what == "cache_clear":
        if d.cache is None or cache_kind == "HDF5" or len(d.cache) == 0:
            return False
        d.cache.clear()
        return True
    if what == "execute":
        if any(m in p["mutations"] for m in DEFAULTS_MUTATIONS):
            return False  # the point may have left the valid domain of the recipe
        try:
            d.execute(life.point([0.77, -0.55, 0.33]))
        except Exception:  # noqa: BLE001 - local data were tampered with: only the side effects matter
            return False
        return True
    return False


# ======================================================================================
# MDOFunction kinds (incl. ProblemFunction of a preprocessed problem)
# ======================================================================================
def _xs(n: int, u) -> np.ndarray:
    """A generated point of [0, 1]^n (valid normalized and unnormalized input of the recipes)."""
    return np.array([0.5 + 0.45 * float(u[i % len(u)]) for i in range(n)])


@st.composite
def function_cases(draw):
    rec = R.RECIPES["MDOFunction"]
    return {
        "args": draw(rec.args),
        "pre": draw(st.lists(st.fixed_dictionaries({"u": _u(), "jac": st.booleans()}), min_size=0, max_size=3)),
        "stats": draw(st.integers(0, 5)) > 0,
        "channel": draw(st.sampled_from(CHANNELS)),
        "protocol": draw(st.sampled_from([2, 4, 5])),
        "worker_u": draw(_u()),
        "post": draw(st.lists(st.fixed_dictionaries({"u": _u(), "jac": st.booleans()}), min_size=1, max_size=3)),
        "mutate_restored": draw(st.booleans()),
    }


def function_view(f, stats: bool) -> dict:
    view = {
        "class": type(f).__qualname__, "name": f.name, "f_type": f.f_type, "expr": f.expr, "input_names": list(f.input_names),
        "output_names": list(f.output_names), "dim": f.dim, "special_repr": f.special_repr, "original_name": f.original_name,
        "has_jac": f.has_jac, "normalized": f.expects_normalized_inputs, "force_real": f.force_real, "last_eval": f.last_eval,
        "repr": repr(f),
    }
    if hasattr(f, "n_calls") and stats:
        view["n_calls"] = f.n_calls
    if hasattr(f, "coefficients"):
        view["coefficients"] = f.coefficients
    if hasattr(f, "value_at_zero"):
        view["value_at_zero"] = f.value_at_zero
    return plain(view)


def database_view(db) -> list:
    out = []
    for x, values in db.items():
        out.append({"x": np.array(x.unwrap() if hasattr(x, "unwrap") else x), "values": dict(values)})
    return plain(out)


@guarded
def case_function(p, ctx):
    from gemseo.algos.problem_function import ProblemFunction

    tmp = tempfile.mkdtemp(dir=os.environ.get("VERIF_SCRATCH"))
    saved = ProblemFunction.enable_statistics
    try:
        ProblemFunction.enable_statistics = bool(p["stats"])
        _function_body(p, ctx, tmp)
    finally:
        ProblemFunction.enable_statistics = saved
        shutil.rmtree(tmp, ignore_errors=True)


def _function_body(p, ctx, tmp):
    a = p["args"]
    stats = bool(p["stats"])
    kind = R.FUNCTION_KINDS[a["kind"] % len(R.FUNCTION_KINDS)]
    f, n, problem = R.build_function(a)
    fd = problem is not None and a.get("fd")
    ctx.cls(f"function:{kind}", f"channel:{p['channel']}")
    n_eval = 0
    for op in p["pre"]:
        x = _xs(n, op["u"])
        f.evaluate(x)
        n_eval += 1
        if op["jac"] and f.has_jac:
            f.jac(x)
    ctx.cls("moment:fresh" if not p["pre"] else "moment:after_evaluations")
    wx = _xs(n, p["worker_u"])
    before = function_view(f, stats)
    db_before = database_view(problem.database) if problem is not None else None
    restored = roundtrip(f, p["channel"], p["protocol"], tmp, ctx, action=("evaluate", wx.copy()))
    if p["channel"] == "fork":
        r = _call(lambda: f.evaluate(wx.copy()))
        ctx.check((r[1] if r[0] == "raises" else None) == WORKER_RAISED[0], "fork_worker",
                  f"evaluating in the worker: {WORKER_RAISED[0] or 'ok'}; evaluating the original here: {r[1] if r[0] == 'raises' else 'ok'}")
        before = function_view(f, stats)
        db_before = database_view(problem.database) if problem is not None else None
    ctx.check(type(restored) is type(f) and restored is not f, "restored_type", f"restored function is a {type(restored).__name__}")
    d = diff(before, function_view(restored, stats))
    ctx.check(d is None, "function_exposed", f"restored function differs from the original: {d}")
    if problem is not None and a["database"]:
        d = diff(db_before, database_view(restored._database))
        ctx.check(d is None, "function_exposed", f"the database travelling with the restored ProblemFunction differs: {d}")
    for op in p["post"]:
        x = _xs(n, op["u"])
        r1 = _call(lambda: plain(f.evaluate(x.copy())))
        r2 = _call(lambda: plain(restored.evaluate(x.copy())))
        ctx.check(r1[0] == r2[0] and (r1[0] == "raises" and r1[1] == r2[1] or r1[0] == "ok"), "function_value",
                  f"evaluate: original {r1[0]} {r1[1] if r1[0] == 'raises' else ''}, restored {r2[0]} {r2[1] if r2[0] == 'raises' else ''}")
        if r1[0] == "ok":
            d = diff(r1[1], r2[1])
            ctx.check(d is None, "function_value", f"evaluate differs at a generated point: {d}", x=x)
        else:
            ctx.cls(f"original_raises:{r1[1]}")
        if op["jac"] and f.has_jac:
            j1 = _call(lambda: plain(f.jac(x.copy())))
            j2 = _call(lambda: plain(restored.jac(x.copy())))
            ctx.check(j1[0] == j2[0], "function_jacobian", f"jac: original {j1}, restored {j2}"[:300])
            if j1[0] == "ok":
                d = diff(j1[1], j2[1])
                ctx.check(d is None, "function_jacobian", f"jac differs at a generated point: {d}", x=x)
            else:
                ctx.cls(f"original_raises:{j1[1]}")
    d = diff(function_view(f, stats), function_view(restored, stats))
    ctx.check(d is None, "function_counters", f"after the same evaluations the two functions differ: {d}")
    # independence: one more evaluation on one side only
    mutated, untouched = (restored, f) if p["mutate_restored"] else (f, restored)
    snap = function_view(untouched, stats)
    db_u = None
    if problem is not None and a["database"]:
        db_u = database_view(untouched._database)
    xm = _xs(n, [0.91, -0.83, 0.77])
    _call(lambda: mutated.evaluate(xm))
    if mutated.has_jac:
        _call(lambda: mutated.jac(xm))
    if isinstance(mutated.last_eval, np.ndarray) and mutated.last_eval.flags.writeable:
        mutated.last_eval += 1.0
    if hasattr(mutated, "n_calls") and stats:
        mutated.n_calls = mutated.n_calls + 5
    mutated.name = mutated.name + "_changed"
    d = diff(snap, function_view(untouched, stats))
    ctx.check(d is None, "function_independence", f"evaluating / renaming one function changed the other: {d}")
    if db_u is not None:
        d = diff(db_u, database_view(untouched._database))
        ctx.check(d is None, "function_independence", f"evaluating one ProblemFunction changed the database of the other: {d}")
    # second generation: the restored (possibly modified) function is serialised again
    view1 = function_view(restored, stats)
    gen2 = roundtrip(restored, "dumps", p["protocol"], tmp, ctx)
    d = diff(view1, function_view(gen2, stats))
    ctx.check(d is None, "second_generation_state", f"function restored, used, serialised again and restored differs: {d}")
    x2 = _xs(n, [0.31, -0.47, 0.59])
    r1, r2 = _call(lambda: plain(restored.evaluate(x2.copy()))), _call(lambda: plain(gen2.evaluate(x2.copy())))
    ctx.check(r1[0] == r2[0] and (r1[0] == "raises" or diff(r1[1], r2[1]) is None), "second_generation_behaviour",
              f"evaluate differs between a restored function and its own restored copy: {r1} vs {r2}"[:400])
    if n_eval >= 1:
        ctx.nontriv(("function", p))
        ctx.cls("nontrivial")
    if fd:
        ctx.cls("function:finite_differences")
    ctx.sample({"oracle": "function", "kind": kind, "n_pre": len(p["pre"]), "channel": p["channel"]})


# ======================================================================================
# DesignSpace / ParameterSpace
# ======================================================================================
@st.composite
def space_cases(draw):
    rec = R.RECIPES["Space"]
    return {
        "args": draw(rec.args),
        "used": draw(st.booleans()),
        "channel": draw(st.sampled_from(["dumps", "dumps", "file", "fork"])),
        "protocol": draw(st.sampled_from([2, 4, 5])),
        "u": draw(_u()),
        "seed": draw(st.integers(0, 5)),
        "mutate_restored": draw(st.booleans()),
    }


def space_view(space) -> dict:
    view = {
        "class": type(space).__qualname__, "name": space.name, "names": list(space.variable_names), "dimension": space.dimension,
        "sizes": dict(space.variable_sizes), "types": {k: np.asarray(v) for k, v in space.variable_types.items()},
        "lower": space.get_lower_bounds(), "upper": space.get_upper_bounds(), "has_value": space.has_current_value,
        "current": {k: v for k, v in space._current_value.items()}, "normalize": dict(space.normalize),
        "str": str(space),
    }
    if hasattr(space, "uncertain_variables"):
        view["uncertain"] = list(space.uncertain_variables)
        view["deterministic"] = list(space.deterministic_variables)
        view["distributions"] = {k: repr(v) for k, v in space.distributions.items()}
        view["moments"] = {k: [np.asarray(v.mean), np.asarray(v.standard_deviation), np.asarray(v.range)] for k, v in space.distributions.items()}
    return plain(view)


def _space_maps(space, u, seed: int) -> dict:
    """Values of the normalisation / projection / sampling maps at generated points."""
    out = {}
    n = space.dimension
    t = np.array([0.5 + 0.5 * float(u[i % len(u)]) for i in range(n)])  # in [0, 1]
    bounded = bool(np.all(np.isfinite(space.get_lower_bounds())) and np.all(np.isfinite(space.get_upper_bounds())))
    lb = np.where(np.isfinite(space.get_lower_bounds()), space.get_lower_bounds(), -3.0)
    ub = np.where(np.isfinite(space.get_upper_bounds()), space.get_upper_bounds(), lb + 5.0)
    lb = np.minimum(lb, ub - 1e-3) if not bounded else lb
    x = lb + (ub - lb) * t
    out["unnormalize"] = _call(lambda: space.unnormalize_vect(t.copy()))
    out["normalize"] = _call(lambda: space.normalize_vect(x.copy()))
    out["round"] = _call(lambda: space.round_vect(x.copy()))
    out["project"] = _call(lambda: space.project_into_bounds(x + 10.0))
    out["to_dict"] = _call(lambda: space.convert_array_to_dict(x.copy()))
    out["transform"] = _call(lambda: space.transform_vect(x.copy()))
    out["untransform"] = _call(lambda: space.untransform_vect(t.copy()))
    if space.has_current_value:
        out["current_array"] = _call(lambda: space.get_current_value())
        out["current_normalized"] = _call(lambda: space.get_current_value(normalize=True)) if bounded else None
    if hasattr(space, "uncertain_variables") and space.uncertain_variables:
        import openturns

        def sample():
            np.random.seed(seed)
            openturns.RandomGenerator.SetSeed(seed)
            return space.compute_samples(3)

        if all("OT" in type(d).__name__ for d in space.distributions.values()):
            # (a pickled SciPy frozen distribution carries a private copy of numpy's RandomState: its samples
            # are by construction not driven by numpy.random.seed any more - not compared)
            out["samples"] = _call(sample)
        unc = space.extract_uncertain_space()
        point = {name: np.full(unc.variable_sizes[name], 0.5) for name in unc.variable_names}
        out["cdf"] = _call(lambda: space.evaluate_cdf(point))
        out["inverse_cdf"] = _call(lambda: space.evaluate_cdf(point, inverse=True))
    return plain(out)


@guarded
def case_space(p, ctx):
    tmp = tempfile.mkdtemp(dir=os.environ.get("VERIF_SCRATCH"))
    try:
        _space_body(p, ctx, tmp)
    finally:
        shutil.rmtree(tmp, ignore_errors=True)


def _space_body(p, ctx, tmp):
    a = p["args"]
    space = R.build_space(a)
    ctx.cls(f"space:{type(space).__name__}", f"channel:{p['channel']}")
    if p["used"]:
        _space_maps(space, p["u"], p["seed"])  # builds the cached normalisation data
        ctx.cls("moment:used")
    else:
        ctx.cls("moment:fresh")
    before = space_view(space)
    restored = roundtrip(space, p["channel"], p["protocol"], tmp, ctx, action=("noop",))
    ctx.check(type(restored) is type(space) and restored is not space, "restored_type", f"restored space is a {type(restored).__name__}")
    d = diff(before, space_view(restored))
    ctx.check(d is None, "space_exposed", f"restored space differs from the original: {d}")
    ctx.check(restored == space and space == restored, "space_exposed", "restored space is not == to the original")
    m1, m2 = _space_maps(space, p["u"], p["seed"]), _space_maps(restored, p["u"], p["seed"])
    d = diff(m1, m2)
    ctx.check(d is None, "space_maps", f"normalisation / projection / sampling maps differ: {d}")
    for key, value in m1.items():
        if isinstance(value, list) and value and value[0] == "raises":
            ctx.cls(f"original_raises:{key[1]}:{value[1]}")
    # independence
    mutated, untouched = (restored, space) if p["mutate_restored"] else (space, restored)
    snap, maps = space_view(untouched), _space_maps(untouched, p["u"], p["seed"])
    name = mutated.variable_names[0]
    if not (hasattr(mutated, "uncertain_variables") and name in mutated.uncertain_variables):
        lb = mutated.get_lower_bound(name)
        mutated.set_lower_bound(name, np.where(np.isfinite(lb), lb - 1.0, -50.0))
        ub = mutated.get_upper_bound(name)
        mutated.set_upper_bound(name, np.where(np.isfinite(ub), ub + 1.0, 50.0))
        mutated.set_current_variable(name, np.where(np.isfinite(ub), ub, 1.0))
    for v in mutated._current_value.values():
        if v.flags.writeable:
            v += 0
    if len(mutated.variable_names) > 1:
        mutated.remove_variable(mutated.variable_names[-1])
    d = diff(snap, space_view(untouched))
    ctx.check(d is None, "space_independence", f"changing one space changed the other: {d}")
    d = diff(maps, _space_maps(untouched, p["u"], p["seed"]))
    ctx.check(d is None, "space_independence", f"changing one space changed the maps of the other: {d}")
    # second generation: the restored (possibly modified) space is serialised again
    view1, maps1 = space_view(restored), _space_maps(restored, p["u"], p["seed"])
    gen2 = roundtrip(restored, "dumps", p["protocol"], tmp, ctx)
    d = diff(view1, space_view(gen2)) or diff(maps1, _space_maps(gen2, p["u"], p["seed"]))
    ctx.check(d is None and gen2 == restored, "second_generation_state", f"space restored, modified, serialised again and restored differs: {d}")
    if p["used"] and space.has_current_value:
        ctx.nontriv(("space", p))
        ctx.cls("nontrivial")
    ctx.sample({"oracle": "space", "args": a, "used": p["used"], "channel": p["channel"]})


# ======================================================================================
# OptimizationProblem (and drivers)
# ======================================================================================
_run_draw = st.fixed_dictionaries({"algo": st.integers(0, 5), "n": st.integers(0, 5), "seed": st.integers(0, 3), "jac": st.booleans()})


@st.composite
def problem_cases(draw):
    rec = R.RECIPES["OptimizationProblem"]
    return {
        "args": draw(rec.args),
        "life": draw(st.sampled_from(["fresh", "evaluated", "evaluated", "solved", "solved"])),
        "normalized": draw(st.booleans()),
        "points": draw(st.lists(_u(), min_size=1, max_size=3)),
        "run": draw(_run_draw),
        "stats": draw(st.integers(0, 5)) > 0,
        "channel": draw(st.sampled_from(["dumps", "dumps", "file", "fork"])),
        "protocol": draw(st.sampled_from([2, 4, 5])),
        "post_points": draw(st.lists(_u(), min_size=1, max_size=2)),
        "post_run": draw(_run_draw),
        "mutate_restored": draw(st.booleans()),
    }


def _driver_settings(a, run) -> dict:
    k = run["algo"] % 4
    if k == 0:
        return {"algo_name": "SLSQP", "max_iter": 2 + run["n"] % 4}
    if k == 1:
        return {"algo_name": "PYDOE_LHS", "n_samples": 2 + run["n"] % 3, "random_state": 1 + run["seed"], "eval_jac": bool(run["jac"])}
    if k == 2:
        return {"algo_name": "NLOPT_COBYLA", "max_iter": 3 + run["n"] % 4}
    return {"algo_name": "OT_HALTON", "n_samples": 2 + run["n"] % 3}


def result_view(res) -> dict | None:
    if res is None:
        return None
    fields = ["x_0", "x_opt", "f_opt", "objective_name", "status", "optimizer_name", "n_obj_call", "n_grad_call",
              "n_constr_call", "is_feasible", "optimum_index", "constraint_values", "constraints_grad", "x_0_as_dict", "x_opt_as_dict"]
    return plain({k: getattr(res, k, None) for k in fields})


def problem_view(problem, stats: bool) -> dict:
    space = problem.design_space
    functions = [problem.objective, *problem.constraints, *problem.observables]
    view = {
        "class": type(problem).__qualname__,
        "space": space_view(space),
        "functions": [{"class": type(f).__name__, "name": f.name, "f_type": f.f_type, "dim": f.dim, "expr": f.expr,
                       "n_calls": (f.n_calls if stats and hasattr(f, "n_calls") else None)} for f in functions],
        "original_functions": [f.name for f in problem.original_functions] if hasattr(problem, "original_functions") else None,
        "minimize": problem.minimize_objective,
        "standardized": problem.use_standardized_objective,
        "tolerances": [problem.tolerances.equality, problem.tolerances.inequality],
        "differentiation_method": problem.differentiation_method,
        "differentiation_step": problem.differentiation_step,
        "is_linear": problem.is_linear,
        "database": database_view(problem.database),
        "solution": result_view(problem.solution),
        "stop_if_nan": problem.stop_if_nan,
        "evaluation_counter": [problem.evaluation_counter.current, problem.evaluation_counter.maximum],
        "function_names": list(problem.function_names),
    }
    return plain(view)


@guarded
def case_problem(p, ctx):
    from gemseo.algos.problem_function import ProblemFunction

    tmp = tempfile.mkdtemp(dir=os.environ.get("VERIF_SCRATCH"))
    saved = ProblemFunction.enable_statistics
    try:
        ProblemFunction.enable_statistics = bool(p["stats"])
        _problem_body(p, ctx, tmp)
    finally:
        ProblemFunction.enable_statistics = saved
        shutil.rmtree(tmp, ignore_errors=True)


def _evaluate(problem, x, normalized: bool):
    out, jac = problem.evaluate_functions(
        design_vector=x.copy(), design_vector_is_normalized=normalized, jacobian_functions=(),
    )
    return plain({"out": dict(out), "jac": dict(jac)})


def _solve(problem, settings):
    from gemseo import execute_algo

    algo_type = "doe" if settings["algo_name"].startswith(("PYDOE", "OT_")) else "opt"
    return result_view(execute_algo(problem, algo_type=algo_type, **settings))


def _problem_body(p, ctx, tmp):
    a = p["args"]
    stats = bool(p["stats"])
    n = a["n"]
    problem = R.build_problem(a)
    ctx.cls(f"problem_life:{p['life']}", f"channel:{p['channel']}")
    # points of [0.05, 0.95]^n are valid as normalized and as unnormalized vectors of the space [-2, 3]^n
    # (a problem preprocessed by a driver keeps that driver's normalisation convention)
    to_x = lambda u: _xs(n, u)  # noqa: E731
    if p["life"] in ("evaluated", "solved"):
        for u in p["points"]:
            _evaluate(problem, to_x(u), p["normalized"])
    if p["life"] == "solved":
        settings = _driver_settings(a, p["run"])
        r = _call(lambda: _solve(problem, settings))
        ctx.cls(f"pre_driver:{settings['algo_name']}:{r[0]}")
    before = problem_view(problem, stats)
    restored = roundtrip(problem, p["channel"], p["protocol"], tmp, ctx, action=("noop",))
    ctx.check(type(restored) is type(problem) and restored is not problem, "restored_type", f"restored problem is a {type(restored).__name__}")
    d = diff(before, problem_view(restored, stats))
    ctx.check(d is None, "problem_exposed", f"restored problem differs from the original: {d}")
    if problem.evaluation_counter.maximum_is_reached:
        # the driver exhausted its budget: lift it on both (the counter object is shared by a problem and its functions)
        problem.evaluation_counter.maximum = restored.evaluation_counter.maximum = 0
        ctx.cls("budget_lifted_after_driver")
    # evaluations on the restored problem do not reach the original
    first, second = (restored, problem) if p["mutate_restored"] else (problem, restored)
    snap = problem_view(second, stats)
    results = []
    for u in p["post_points"]:
        results.append(_call(lambda: _evaluate(first, to_x(u), p["normalized"])))
    d = diff(snap, problem_view(second, stats))
    ctx.check(d is None, "problem_independence", f"evaluating one problem changed the other (database, counters, design space): {d}")
    for u, r1 in zip(p["post_points"], results):
        r2 = _call(lambda: _evaluate(second, to_x(u), p["normalized"]))
        ctx.check(r1[0] == r2[0], "problem_values", f"evaluate_functions: {r1[0]} on one problem, {r2[0]} on the other ({r1[1] if r1[0] != 'ok' else r2[1]})"[:400])
        if r1[0] == "ok":
            d = diff(r1[1], r2[1])
            ctx.check(d is None, "problem_values", f"evaluate_functions differs between original and restored: {d}")
        else:
            ctx.cls(f"original_raises:{r1[1]}")
    d = diff(problem_view(problem, stats), problem_view(restored, stats))
    ctx.check(d is None, "problem_values", f"after the same evaluations the two problems differ: {d}")
    # a driver gives the same result and database on both
    settings = _driver_settings(a, p["post_run"])
    snap = problem_view(second, stats)
    r1 = _call(lambda: _solve(first, settings))
    d = diff(snap, problem_view(second, stats))
    ctx.check(d is None, "problem_independence", f"running {settings['algo_name']} on one problem changed the other: {d}")
    r2 = _call(lambda: _solve(second, settings))
    ctx.check(r1[0] == r2[0] and (r1[0] == "ok" or r1[1] == r2[1]), "driver_result",
              f"{settings['algo_name']}: {r1[0]} {r1[1] if r1[0] != 'ok' else ''} on one problem, {r2[0]} {r2[1] if r2[0] != 'ok' else ''} on the other")
    if r1[0] == "ok":
        d = diff(r1[1], r2[1])
        ctx.check(d is None, "driver_result", f"{settings['algo_name']} returns different results on original and restored: {d}")
        ctx.cls(f"post_driver:{settings['algo_name']}")
    else:
        ctx.cls(f"original_raises:{settings['algo_name']}:{r1[1]}")
    d = diff(problem_view(problem, stats), problem_view(restored, stats))
    ctx.check(d is None, "driver_result", f"after {settings['algo_name']} the two problems (database, solution, counters) differ: {d}")
    # second generation: the restored problem, evaluated and solved meanwhile, is serialised again
    view1 = problem_view(restored, stats)
    gen2 = roundtrip(restored, "dumps", p["protocol"], tmp, ctx)
    d = diff(view1, problem_view(gen2, stats))
    ctx.check(d is None, "second_generation_state", f"problem restored, used, serialised again and restored differs: {d}")
    if p["life"] == "solved":
        ctx.nontriv(("problem", p))
        ctx.cls("nontrivial")
    ctx.sample({"oracle": "problem", "args": a, "life": p["life"], "channel": p["channel"], "post_algo": settings["algo_name"]})


# ======================================================================================
# scenarios
# ======================================================================================
@st.composite
def scenario_cases(draw):
    rec = R.RECIPES["Scenario"]
    return {
        "args": draw(rec.args),
        "runs": draw(st.lists(_run_draw, min_size=0, max_size=2)),
        "stats": draw(st.integers(0, 5)) > 0,
        "channel": draw(st.sampled_from(["dumps", "file", "fork"])),
        "protocol": draw(st.sampled_from([2, 4, 5])),
        "post_run": draw(_run_draw),
        "mutate_restored": draw(st.booleans()),
    }


def scenario_view(scenario, stats: bool) -> dict:
    problem = scenario.formulation.optimization_problem
    view = {
        "class": type(scenario).__qualname__,
        "name": scenario.name,
        "formulation": type(scenario.formulation).__qualname__,
        "formulation_settings": getattr(scenario.formulation, "settings", None),
        "problem": problem_view(problem, stats),
        "result": result_view(scenario.optimization_result) if problem.solution is not None else None,
        "disciplines": [snapshot(d, stats) for d in scenario.disciplines],
        "settings": getattr(scenario, "_settings", None),
        "status": scenario.execution_status.value,
    }
    if stats:
        view["n_executions"] = scenario.execution_statistics.n_executions
    return plain(view)


@guarded
def case_scenario(p, ctx):
    from gemseo.algos.problem_function import ProblemFunction
    from gemseo.core.execution_statistics import ExecutionStatistics

    tmp = tempfile.mkdtemp(dir=os.environ.get("VERIF_SCRATCH"))
    saved = ProblemFunction.enable_statistics, ExecutionStatistics.is_enabled
    try:
        ProblemFunction.enable_statistics = ExecutionStatistics.is_enabled = bool(p["stats"])
        _scenario_body(p, ctx, tmp)
    finally:
        ProblemFunction.enable_statistics, ExecutionStatistics.is_enabled = saved
        shutil.rmtree(tmp, ignore_errors=True)


def _scenario_body(p, ctx, tmp):
    a = p["args"]
    stats = bool(p["stats"])
    scenario = R.build_scenario(a)
    form = R.FORMULATIONS[a["form"] % 4]
    ctx.cls(f"scenario:{'DOE' if a['doe'] else 'MDO'}:{form}", f"channel:{p['channel']}", f"scenario_runs_before:{len(p['runs'])}")
    for run in p["runs"]:
        settings = R.scenario_settings(a, run)
        r = _call(lambda: scenario.execute(**settings))
        ctx.cls(f"pre_run:{settings['algo_name']}:{r[0]}")
    post = R.scenario_settings(a, p["post_run"])
    before = scenario_view(scenario, stats)
    restored = roundtrip(scenario, p["channel"], p["protocol"], tmp, ctx, action=("scenario", post))
    ctx.check(type(restored) is type(scenario) and restored is not scenario, "restored_type", f"restored scenario is a {type(restored).__name__}")
    if p["channel"] == "fork":
        # the worker has run the scenario: the original must be unchanged, then catches up
        d = diff(before, scenario_view(scenario, stats))
        ctx.check(d is None, "scenario_independence", f"running the scenario in the worker changed the original: {d}")
        r = _call(lambda: scenario.execute(**post))
        ctx.check((r[1] if r[0] == "raises" else None) == WORKER_RAISED[0], "scenario_result",
                  f"{post['algo_name']} in the worker: {WORKER_RAISED[0] or 'ok'}; on the original here: {r[1] if r[0] == 'raises' else 'ok'}")
        d = diff(scenario_view(scenario, stats), scenario_view(restored, stats))
        ctx.check(d is None, "scenario_result", f"scenario run in a forked worker and returned differs from the original run here: {d}")
        ctx.cls(f"post_run:{post['algo_name']}")
    else:
        d = diff(before, scenario_view(restored, stats))
        ctx.check(d is None, "scenario_exposed", f"restored scenario differs from the original: {d}")
        first, second = (restored, scenario) if p["mutate_restored"] else (scenario, restored)
        snap = scenario_view(second, stats)
        r1 = _call(lambda: first.execute(**post))
        d = diff(snap, scenario_view(second, stats))
        ctx.check(d is None, "scenario_independence", f"running one scenario changed the other (database, design space, disciplines): {d}")
        r2 = _call(lambda: second.execute(**post))
        ctx.check(r1[0] == r2[0] and (r1[0] == "ok" or r1[1] == r2[1]), "scenario_result",
                  f"{post['algo_name']}: {r1[0]} {r1[1] if r1[0] != 'ok' else ''} on one scenario, {r2[0]} {r2[1] if r2[0] != 'ok' else ''} on the other")
        d = diff(scenario_view(scenario, stats), scenario_view(restored, stats))
        ctx.check(d is None, "scenario_result", f"after {post['algo_name']} original and restored scenario (result, database, disciplines) differ: {d}")
        ctx.cls(f"post_run:{post['algo_name']}" if r1[0] == "ok" else f"original_raises:{post['algo_name']}:{r1[1]}")
    view1 = scenario_view(restored, stats)
    gen2 = roundtrip(restored, "dumps", p["protocol"], tmp, ctx)
    d = diff(view1, scenario_view(gen2, stats))
    ctx.check(d is None, "second_generation_state", f"scenario restored, run, serialised again and restored differs: {d}")
    if p["runs"]:
        ctx.nontriv(("scenario", p))
        ctx.cls("nontrivial")
    ctx.sample({"oracle": "scenario", "args": a, "runs": [R.scenario_settings(a, r)["algo_name"] for r in p["runs"]],
                "channel": p["channel"], "post": post["algo_name"]})


# ======================================================================================
# two interpreters: saved by one process, loaded by another one with another hash seed
# ======================================================================================
CROSS_SEEDS = [0, 1, 2, 3, 123]
CROSS_EXCLUDED = ("ScenarioAdapter",)  # several optimisations per execution: too slow for a batch
_CHILD = (
    "import sys; sys.path.insert(0, {verif!r}); from vlib import env; env.bootstrap(); "
    "import checks.c20_serialization as m; m.child_main(sys.argv[1], sys.argv[2])"
)


def _item(draw, name: str, args=None):
    rec = R.RECIPES[name]
    ops = ["exec", "exec", "lin_all", "lin", "defaults", "exec_same", "g_restrict", "g_update", "g_describe"]
    return {
        "recipe": name,
        "args": args if args is not None else draw(rec.args),
        "gi": draw(st.integers(0, 7)),
        "cache": draw(st.sampled_from(["Simple", "Simple", "None"])),
        "cache_tol": 0.0,
        "cache_name": "",
        "seed": draw(st.integers(0, 3)),
        "pre": draw(st.lists(st.fixed_dictionaries({"op": st.sampled_from(ops), "u": _u(), "k": st.integers(0, 7), "partial": st.booleans()}), max_size=2)),
        "post": draw(st.lists(st.fixed_dictionaries({"u": _u(), "partial": st.booleans(), "lin": st.sampled_from(["no", "all", "subset"]), "k": st.integers(0, 7)}), min_size=1, max_size=2)),
    }


@st.composite
def cross_cases(draw):
    a = draw(st.sampled_from(CROSS_SEEDS))
    b = draw(st.sampled_from([s for s in CROSS_SEEDS if s != a]))
    # every batch holds analytic disciplines whose expressions have 5-6 input symbols
    items = [_item(draw, "AnalyticDiscipline", {"e": [8], "name": 0}), _item(draw, "AnalyticDiscipline", {"e": [9, 8, 0], "name": 1})]
    pool = [n for n in _weighted(("discipline", "mda")) if n not in CROSS_EXCLUDED]
    for name in draw(st.lists(st.sampled_from(pool), min_size=4, max_size=6)):
        items.append(_item(draw, name))
    return {"save_seed": a, "load_seed": b, "items": items}


def _selection(life, mode: str, k: int):
    """What to differentiate: None (execute only), "all", or (inputs, outputs)."""
    if mode == "no" or not life.rec.linearizable:
        return None
    ins, outs = life.diff_candidates()
    if mode == "all" and not life.is_mda:
        return "all"
    if mode != "all":
        ins = [ins[k % len(ins)]] if ins else []
        outs = [outs[(k // 2) % len(outs)]] if outs else []
    return (ins, outs) if ins and outs else None


def _run_call(obj, call):
    data, sel = _cp(call["data"]), call["sel"]
    if sel is None:
        out = _call(lambda: plain(dict(obj.execute(data))))
    elif sel == "all":
        out = _call(lambda: plain({o: dict(v) for o, v in obj.linearize(data, compute_all_jacobians=True).items()}))
    else:
        def lin():
            obj.add_differentiated_inputs(sel[0])
            obj.add_differentiated_outputs(sel[1])
            return plain({o: dict(v) for o, v in obj.linearize(data).items()})

        out = _call(lin)
    return [out[0], out[1], plain(dict(obj.io.data))]


def child_main(mode: str, jobdir: str) -> None:
    """Entry point of the two child interpreters (started with their own PYTHONHASHSEED)."""
    import json

    from gemseo.utils.pickle import from_pickle
    from gemseo.utils.pickle import to_pickle

    from vlib.core import is_harness_fault

    job = json.loads(open(os.path.join(jobdir, "job.json")).read())
    out = []
    if mode == "save":
        for i, item in enumerate(job["items"]):
            stage = "building"
            try:
                life = Life(item, item["cache"], jobdir)
                for op in item["pre"]:
                    life.apply(op)
                obj = life.obj
                probe = life.point([0.0])
                no_lin = any(_contains(obj, name) for name in job["no_linearize"])
                calls = [{"data": life.point(c["u"], c["partial"]), "sel": None if no_lin else _selection(life, c["lin"], c["k"])} for c in item["post"]]
                downgraded = sum(1 for c in item["post"] if no_lin and c["lin"] != "no" and life.rec.linearizable)
                stage = "pickling"
                to_pickle(obj, os.path.join(jobdir, f"obj{i}.pkl"))
                stage = "using the saved object"
                view = snapshot(obj, True, probe)
                results = [_run_call(obj, c) for c in calls]
                out.append({"ok": True, "view": view, "probe": probe, "calls": calls, "results": results, "class": type(obj).__name__,
                            "n_exec": life.n_exec, "n_lin": life.n_lin, "flags": sorted(life.flags), "downgraded": downgraded,
                            "grammar": life.gtype})
            except Exception as exc:  # noqa: BLE001
                out.append({"ok": False, "stage": stage, "error": f"{type(exc).__name__}: {exc}", "harness": is_harness_fault(exc) and stage != "pickling",
                            "trace": traceback.format_exc()[-1500:]})
        with open(os.path.join(jobdir, "saved.pkl"), "wb") as f:
            pickle.dump(out, f)
        return
    with open(os.path.join(jobdir, "saved.pkl"), "rb") as f:
        saved = pickle.load(f)
    for i, sv in enumerate(saved):
        if not sv["ok"]:
            out.append(None)
            continue
        stage = "unpickling"
        try:
            obj = from_pickle(os.path.join(jobdir, f"obj{i}.pkl"))
            stage = "using the loaded object"
            view = snapshot(obj, True, sv["probe"])
            results = [_run_call(obj, c) for c in sv["calls"]]
            out.append({"ok": True, "view": view, "results": results})
        except Exception as exc:  # noqa: BLE001
            out.append({"ok": False, "stage": stage, "error": f"{type(exc).__name__}: {exc}", "harness": is_harness_fault(exc) and stage != "unpickling",
                        "trace": traceback.format_exc()[-1500:]})
    with open(os.path.join(jobdir, "loaded.pkl"), "wb") as f:
        pickle.dump(out, f)


def _child(mode: str, jobdir: str, hash_seed: int) -> None:
    import subprocess
    import sys

    from vlib.core import VERIF
    from vlib.core import HarnessError

    env_ = dict(os.environ, PYTHONHASHSEED=str(hash_seed))
    try:
        res = subprocess.run([sys.executable, "-c", _CHILD.format(verif=str(VERIF)), mode, jobdir], env=env_, cwd=str(VERIF),
                             capture_output=True, text=True, timeout=WATCHDOG_S - 20)
    except subprocess.TimeoutExpired:
        raise _Inconclusive from None
    if res.returncode != 0:
        raise HarnessError(f"child interpreter ({mode}, PYTHONHASHSEED={hash_seed}) failed:\n{res.stderr[-3000:]}")


@guarded
def case_cross(p, ctx):
    import json

    from vlib.core import HarnessError

    tmp = tempfile.mkdtemp(dir=os.environ.get("VERIF_SCRATCH"))
    try:
        no_lin = ["SobieskiAerodynamics"] if ctx.known("sobieski_aerodynamics_linearize_after_restore", count=False) else []
        with open(os.path.join(tmp, "job.json"), "w") as f:
            f.write(json.dumps({"items": p["items"], "no_linearize": no_lin}))
        _child("save", tmp, p["save_seed"])
        _child("load", tmp, p["load_seed"])
        with open(os.path.join(tmp, "saved.pkl"), "rb") as f:
            saved = pickle.load(f)
        with open(os.path.join(tmp, "loaded.pkl"), "rb") as f:
            loaded = pickle.load(f)
        ctx.cls(f"cross:hash_seeds:{p['save_seed']}->{p['load_seed']}")
        nontrivial = False
        for item, sv, ld in zip(p["items"], saved, loaded):
            what = f"{item['recipe']} (saved with PYTHONHASHSEED={p['save_seed']}, loaded with {p['load_seed']})"
            if not sv["ok"]:
                if sv["harness"]:
                    raise HarnessError(f"saver child, {what}: {sv['error']}\n{sv['trace']}")
                ctx.check(sv["stage"] != "pickling", "picklable", f"{what}: {sv['stage']} raises {sv['error']}")
                ctx.cls(f"cross:not_built:{item['recipe']}")
                continue
            if not ld["ok"] and ld["harness"]:
                raise HarnessError(f"loader child, {what}: {ld['error']}\n{ld['trace']}")
            ctx.check(ld["ok"], "cross_interpreter_load", f"{what}: {ld.get('stage')} raises {ld.get('error')}")
            for _ in range(sv["downgraded"]):
                ctx.known("sobieski_aerodynamics_linearize_after_restore")
            ctx.cls(f"cross:class:{sv['class']}", f"cross:grammar:{sv['grammar']}", *(f"cross:state:{f}" for f in sv["flags"] if "raises" not in f))
            d = diff(sv["view"], ld["view"])
            ctx.check(d is None, "cross_interpreter_state", f"{what}: the loaded object differs from the saved one: {d}")
            for call, r1, r2 in zip(sv["calls"], sv["results"], ld["results"]):
                kind = "execute" if call["sel"] is None else "linearize"
                ctx.check(r1[0] == r2[0] and (r1[0] == "ok" or r1[1] == r2[1]), "cross_interpreter_behaviour",
                          f"{what}: {kind} is {r1[0]} {r1[1] if r1[0] == 'raises' else ''} in the saving process and {r2[0]} {r2[1] if r2[0] == 'raises' else ''} in the loading one")
                if r1[0] == "ok":
                    # (after a finite-difference linearisation the local data keep the input perturbed last, which
                    # depends on the iteration order of the interpreter: local data are compared after executions)
                    d = diff(r1[1], r2[1]) or (diff(r1[2], r2[2], "local_data") if call["sel"] is None else None)
                    ctx.check(d is None, "cross_interpreter_behaviour", f"{what}: {kind} at a generated point differs between the saving and the loading process: {d}",
                              input=call["data"])
                    ctx.cls(f"cross:{kind}")
            nontrivial = nontrivial or (sv["n_exec"] >= 1 and sv["n_lin"] >= 1)
        if nontrivial:
            ctx.nontriv(("cross", p))
            ctx.cls("nontrivial")
        ctx.sample({"oracle": "cross_process", "hash_seeds": [p["save_seed"], p["load_seed"]], "recipes": [i["recipe"] for i in p["items"]]})
    finally:
        shutil.rmtree(tmp, ignore_errors=True)


# ======================================================================================
# grammars pickled alone
# ======================================================================================
GRAMMAR_CLASSES = ["JSONGrammar", "PydanticGrammar", "SimpleGrammar", "PydanticGrammar", "JSONGrammar", "SimplerGrammar"]
_G_NAMES = ["x", "yy", "z_3", "name with space", "w"]
_G_OPS = ["names", "data", "types", "describe", "describe", "defaults", "optional", "restrict", "rename", "validate", "schema", "namespace"]


@st.composite
def grammar_cases(draw):
    return {
        "cls": draw(st.integers(0, len(GRAMMAR_CLASSES) - 1)),
        "init": draw(st.integers(0, 8)),
        "ops": draw(st.lists(st.fixed_dictionaries({"op": st.sampled_from(_G_OPS), "k": st.integers(0, 9)}), min_size=1, max_size=6)),
        "channel": draw(st.sampled_from(["dumps", "dumps", "file", "fork"])),
        "protocol": draw(st.sampled_from([2, 4, 5])),
        "second_ops": draw(st.lists(st.fixed_dictionaries({"op": st.sampled_from(_G_OPS), "k": st.integers(0, 9)}), max_size=3)),
    }


def _grammar_apply(grammar, op, flags: set) -> None:
    """One edit of a grammar through its public API (index-modulo arguments: always valid)."""
    k = op["k"]
    kind = op["op"]
    present = list(grammar)
    if kind == "names":
        grammar.update_from_names([_G_NAMES[k % 5], _G_NAMES[(k + 2) % 5]])
    elif kind == "data":
        grammar.update_from_data({_G_NAMES[k % 5]: np.arange(1.0, 2.0 + k % 3), _G_NAMES[(k + 1) % 5]: float(k)})
    elif kind == "types":
        grammar.update_from_types({_G_NAMES[k % 5]: [int, float, str, np.ndarray][k % 4]})
    elif not present:
        return
    elif kind == "describe":
        if hasattr(grammar, "set_descriptions"):
            grammar.set_descriptions({present[k % len(present)]: f"Description number {k}.", present[(k + 1) % len(present)]: "Another one."})
            flags.add("described")
    elif kind == "defaults":
        name = present[k % len(present)]
        value = np.full(1 + k % 2, 0.5 * k)
        if _accepts(grammar, {**{n: v for n, v in grammar.defaults.items()}, name: value}) or True:
            grammar.defaults[name] = value
            flags.add("defaults")
    elif kind == "optional":
        grammar.required_names.discard(present[k % len(present)])
        flags.add("optional")
    elif kind == "restrict":
        if len(present) >= 2:
            removed = present[k % len(present)]
            grammar.restrict_to([n for n in present if n != removed])
            flags.add("restricted")
    elif kind == "rename":
        new = f"renamed_{k}"
        if new not in grammar:
            grammar.rename_element(present[k % len(present)], new)
            flags.add("renamed")
    elif kind == "validate":
        _accepts(grammar, {n: np.array([1.0]) for n in present})  # compiles the validator / fills the schema cache
        flags.add("validated")
    elif kind == "schema":
        if hasattr(grammar, "schema"):
            grammar.schema  # noqa: B018 - fills the cache
            flags.add("schema_read")
    elif kind == "namespace":
        name = present[k % len(present)]
        if ":" not in name:
            grammar.add_namespace(name, f"ns{k % 2}")
            flags.add("namespaced")


def _grammar_probe(grammar) -> dict:
    return {n: np.array([1.0]) for n in grammar}


@guarded
def case_grammar(p, ctx):
    from gemseo.core.grammars.factory import GrammarFactory

    tmp = tempfile.mkdtemp(dir=os.environ.get("VERIF_SCRATCH"))
    try:
        cls = GRAMMAR_CLASSES[p["cls"] % len(GRAMMAR_CLASSES)]
        grammar = GrammarFactory().create(cls, name="g")
        flags: set = set()
        init = p.get("init", 0)
        first = [{"op": ["names", "data", "types"][init % 3], "k": init}, {"op": "names", "k": init + 1}]  # never an empty grammar
        for op in first + list(p["ops"]):
            r = _call(lambda: _grammar_apply(grammar, op, flags))
            if r[0] == "raises":
                ctx.cls(f"grammar_op_raises:{op['op']}:{r[1]}")
        ctx.cls(f"grammar:{cls}", f"channel:{p['channel']}", *(f"grammar_state:{f}" for f in sorted(flags)))
        before = plain(grammar_view(grammar, _grammar_probe(grammar)))
        restored = roundtrip(grammar, p["channel"], p["protocol"], tmp, ctx, action=("noop",))
        ctx.check(type(restored) is type(grammar) and restored is not grammar, "restored_type", f"restored grammar is a {type(restored).__name__}")
        d = diff(before, plain(grammar_view(restored, _grammar_probe(restored))))
        ctx.check(d is None, "grammar_exposed", f"restored {cls} differs from the original: {d}")
        # independence, then a second generation made from the edited restored grammar
        snap = plain(grammar_view(grammar, _grammar_probe(grammar)))
        flags2: set = set()
        for op in p["second_ops"]:
            _call(lambda: _grammar_apply(restored, op, flags2))
        for value in restored.defaults.values():
            if isinstance(value, np.ndarray) and value.flags.writeable:
                value += 1.0
        d = diff(snap, plain(grammar_view(grammar, _grammar_probe(grammar))))
        ctx.check(d is None, "grammar_independence", f"editing the restored grammar changed the original: {d}")
        view1 = plain(grammar_view(restored, _grammar_probe(restored)))
        gen2 = roundtrip(restored, "dumps", p["protocol"], tmp, ctx)
        d = diff(view1, plain(grammar_view(gen2, _grammar_probe(gen2))))
        ctx.check(d is None, "second_generation_state", f"{cls} restored, edited, serialised again and restored differs: {d}")
        if len(grammar) and flags & {"validated", "schema_read", "described", "restricted", "renamed"}:
            ctx.nontriv(("grammar", p))
            ctx.cls("nontrivial")
        ctx.sample({"oracle": "grammar", "class": cls, "ops": [o["op"] for o in p["ops"]], "channel": p["channel"]})
    finally:
        shutil.rmtree(tmp, ignore_errors=True)


# ======================================================================================
# HDF5: the file changes between saving and loading
# ======================================================================================
HDF5_RECIPES = ["AnalyticDiscipline", "Sellar", "LinearCombination", "MDOChain", "AutoPyDiscipline", "Splitter"]


@st.composite
def hdf5_file_cases(draw):
    name = draw(st.sampled_from(HDF5_RECIPES))
    return {
        "recipe": name,
        "args": draw(R.RECIPES[name].args),
        "gi": 0,
        "cache": "HDF5",
        "cache_tol": 0.0,
        "cache_name": draw(st.sampled_from(["", "my cache"])),
        "seed": 0,
        "before": draw(st.lists(st.fixed_dictionaries({"u": _u(), "lin": st.booleans()}), min_size=1, max_size=4, unique_by=lambda c: tuple(c["u"]))),
        "revisit": draw(st.one_of(st.none(), st.integers(0, 3))),
        "change": draw(st.sampled_from(["clear_then_fewer", "clear_then_fewer", "clear_then_same_or_more", "more", "nothing"])),
        "after": draw(st.lists(st.fixed_dictionaries({"u": _u(), "lin": st.booleans()}), min_size=1, max_size=4, unique_by=lambda c: tuple(c["u"]))),
        "channel": draw(st.sampled_from(["dumps", "file"])),
        "protocol": draw(st.sampled_from([2, 4, 5])),
    }


def _valid_cache_view(cache, ctx, who: str) -> dict:
    """A cache must be a consistent view of its entries: last entry among them, names and sizes from it, exportable."""
    entries = [{"in": plain(dict(e.inputs)), "out": plain(dict(e.outputs))} for e in cache.get_all_entries()] if len(cache) else []
    ctx.check(len(entries) == len(cache), "hdf5_view_of_file", f"{who}: len() is {len(cache)} but {len(entries)} entries are served")
    if entries:
        last = cache.last_entry
        last_plain = {"in": plain(dict(last.inputs)), "out": plain(dict(last.outputs))}
        empty = not last.inputs and not last.outputs  # (a discipline without inputs has entries without inputs)
        ctx.check(not empty and any(diff(last_plain, e) is None for e in entries), "hdf5_view_of_file",
                  f"{who}: the cache holds {len(entries)} entries but its last entry {'is empty' if empty else 'is none of them'}")
        ctx.check(cache.input_names == sorted(last.inputs) and cache.output_names == sorted(last.outputs), "hdf5_view_of_file",
                  f"{who}: input / output names {cache.input_names} / {cache.output_names} are not those of the last entry")
        sizes = cache.names_to_sizes
        ctx.check(set(sizes) == set(last.inputs) | set(last.outputs), "hdf5_view_of_file", f"{who}: names_to_sizes {sizes} does not cover the last entry")
        r = _call(lambda: cache.to_dataset())
        ctx.check(r[0] == "ok" and len(r[1]) == len(entries), "hdf5_view_of_file",
                  f"{who}: to_dataset() {'raises ' + str(r[1]) if r[0] != 'ok' else 'has ' + str(len(r[1])) + ' rows for ' + str(len(entries)) + ' entries'}")
    return {"entries": entries}


@guarded
def case_hdf5_file(p, ctx):
    from gemseo.utils.pickle import from_pickle
    from gemseo.utils.pickle import to_pickle

    tmp = tempfile.mkdtemp(dir=os.environ.get("VERIF_SCRATCH"))
    LOOSE_DTYPE[0] = True
    try:
        life = Life(p, "HDF5", tmp)
        if life.cache_kind != "HDF5" or not life.base:
            ctx.cls("hdf5_file:not_applicable")  # non-array inputs, or a discipline without inputs (nothing to key entries on)
            return
        orig = life.obj
        rec = life.rec

        def use(obj, call):
            data = life.point(call["u"])
            if call["lin"] and rec.linearizable:
                return _call(lambda: life.linearize(obj, _cp(data), "all", 0))
            return _call(lambda: obj.execute(_cp(data)))

        for call in p["before"]:
            use(orig, call)
        if p["revisit"] is not None:
            use(orig, {**p["before"][p["revisit"] % len(p["before"])], "lin": True})  # the last accessed entry is an older one
        n_before = len(orig.cache)
        # ---- save
        if p["channel"] == "dumps":
            blob = pickle.dumps(orig, protocol=p["protocol"])
        else:
            to_pickle(orig, os.path.join(tmp, "obj.pkl"))
        # ---- the original goes on with the same file / node
        change = p["change"]
        after = list(p["after"])
        if change.startswith("clear") and n_before:
            orig.cache.clear()
            if change == "clear_then_fewer":
                after = after[: max(1, min(len(after), n_before - 1))] if n_before > 1 else []
        elif change == "nothing":
            after = []
        for call in after:
            use(orig, call)
        n_now = len(orig.cache)
        ctx.cls(f"hdf5_file:{change}", f"hdf5_file:entries_{'fewer' if n_now < n_before else 'more' if n_now > n_before else 'as_many'}_at_load")
        # ---- load
        restored = pickle.loads(blob) if p["channel"] == "dumps" else from_pickle(os.path.join(tmp, "obj.pkl"))
        rc, oc = restored.cache, orig.cache
        ctx.check(type(rc).__name__ == "HDF5Cache" and str(rc.hdf_file.hdf_file_path) == str(oc.hdf_file.hdf_file_path)
                  and rc.hdf_node_path == oc.hdf_node_path and rc.name == oc.name and rc.tolerance == oc.tolerance,
                  "hdf5_attached", "the restored HDF5Cache is not attached to the file / node of the original")
        view_o = _valid_cache_view(oc, ctx, "original cache")
        view_r = _valid_cache_view(rc, ctx, "restored cache")
        ctx.check(len(rc) == n_now, "hdf5_view_of_file", f"the node holds {n_now} entries at load time, the restored cache has {len(rc)}")
        d = diff(sorted(view_o["entries"], key=repr), sorted(view_r["entries"], key=repr))
        ctx.check(d is None, "hdf5_view_of_file", f"the restored cache does not serve the entries of the file as it is at load time: {d}")
        # stored points are hits on the restored discipline and give the stored values
        stored = after if (change.startswith("clear") and n_before) else list(p["before"]) + after
        for call in stored[:3]:
            data = life.point(call["u"])
            n0 = restored.execution_statistics.n_executions
            r1 = _call(lambda: plain(dict(orig.execute(_cp(data)))))
            r2 = _call(lambda: plain(dict(restored.execute(_cp(data)))))
            ctx.check(r1[0] == r2[0], "hdf5_view_of_file", f"executing a stored point: original {r1[0]}, restored {r2[0]}")
            if r1[0] == "ok":
                names = {K(n) for n in orig.io.output_grammar}
                d = diff({k: v for k, v in r1[1].items() if k in names}, {k: v for k, v in r2[1].items() if k in names})
                ctx.check(d is None, "hdf5_view_of_file", f"a stored point gives other outputs on the restored discipline: {d}")
                ctx.check(restored.execution_statistics.n_executions == n0, "hdf5_view_of_file",
                          "the restored discipline re-ran a point that is stored in the file")
                ctx.cls("hdf5_file:stored_point_hit")
        if n_now != n_before or change.startswith("clear"):
            ctx.nontriv(("hdf5_file", p))
            ctx.cls("nontrivial")
        ctx.sample({"oracle": "hdf5_file_changes", "recipe": p["recipe"], "before": len(p["before"]), "change": change, "after": len(after)})
    finally:
        LOOSE_DTYPE[0] = False
        _forget_hdf5(tmp)
        shutil.rmtree(tmp, ignore_errors=True)


ORACLES = {"discipline": case_discipline, "function": case_function, "space": case_space, "problem": case_problem, "scenario": case_scenario,
           "cross_process": case_cross, "grammar": case_grammar, "hdf5_file_changes": case_hdf5_file}


def _factory_coverage(ctx) -> None:
    """Which classes of the two factories the recipe table reaches (measured against the live factories)."""
    from gemseo.disciplines.factory import DisciplineFactory
    from gemseo.mda.factory import MDAFactory

    factory_classes = set(DisciplineFactory().class_names) | set(MDAFactory().class_names)
    covered = set()
    for rec in R.RECIPES.values():
        covered |= set(rec.classes)
    ctx.extra["factory_classes_total"] = len(factory_classes) if ctx.shard == 0 else 0
    ctx.extra["factory_classes_with_recipe"] = len(factory_classes & covered) if ctx.shard == 0 else 0
    ctx.extra["factory_classes_without_recipe"] = sorted(factory_classes - covered - set(R.SKIPPED))
    ctx.extra["recipe_notes"] = [f"{r.name}: {r.notes}" for r in R.RECIPES.values() if r.notes]


def run(ctx):
    ctx.extra["skipped_classes"] = [f"{k}: {v}" for k, v in sorted(R.SKIPPED.items())]
    ctx.extra["recipes"] = sorted(R.RECIPES)
    _factory_coverage(ctx)
    # one Hypothesis run per recipe: every class is reached at every seed, a defect of one class does not hide the others
    for name, rec in R.RECIPES.items():
        if rec.kind in ("discipline", "mda"):
            ctx.drive("discipline", discipline_cases(name), case_discipline, quick=3 + rec.weight, thorough=12 + 10 * rec.weight)
    ctx.drive("function", function_cases(), case_function, quick=70, thorough=1000)
    ctx.drive("space", space_cases(), case_space, quick=40, thorough=500)
    ctx.drive("problem", problem_cases(), case_problem, quick=32, thorough=300)
    ctx.drive("scenario", scenario_cases(), case_scenario, quick=12, thorough=80)
    ctx.drive("cross_process", cross_cases(), case_cross, quick=3, thorough=10)
    ctx.drive("grammar", grammar_cases(), case_grammar, quick=60, thorough=1500)
    ctx.drive("hdf5_file_changes", hdf5_file_cases(), case_hdf5_file, quick=25, thorough=300)
