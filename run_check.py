#!/venv/bin/python
"""Single entry point:  run_check.py <Cxx> [--tier quick|thorough] [--replay FILE]

exit 0: property held on everything explored (listed known findings are printed as
        KNOWN-FINDING lines);  exit 1: a VIOLATION line was printed;  exit 2: harness error.
"""

from __future__ import annotations

import argparse
import importlib
import json
import os
import shutil
import subprocess
import sys
import tempfile
import time
import traceback
from pathlib import Path

VERIF = Path(__file__).resolve().parent
sys.path.insert(0, str(VERIF))

from vlib import env  # noqa: E402

env.bootstrap()

from vlib import core  # noqa: E402

N_SHARDS = int(os.environ.get("VERIF_SHARDS", "16"))


def find_module(prop: str):
    hits = sorted((VERIF / "checks").glob(f"{prop.lower()}_*.py"))
    if len(hits) != 1:
        print(f"HARNESS-ERROR: no unique check module for {prop}: {hits}")
        sys.exit(2)
    return importlib.import_module(f"checks.{hits[0].stem}")


def make_scratch() -> str:
    base = os.environ.get("VERIF_SCRATCH_BASE") or ("/dev/shm" if os.access("/dev/shm", os.W_OK) else None)
    path = tempfile.mkdtemp(prefix="verif-", dir=base)
    os.environ["VERIF_SCRATCH"] = path
    return path


def run_shard(prop: str, tier: str, seed: int, shard: int, n_shards: int, replays: bool) -> dict:
    env.assert_gemseo_tree()
    module = find_module(prop)
    ctx = core.Ctx(module, tier, seed, shard, n_shards)
    if replays:
        ctx.run_replays()
    module.run(ctx)
    return ctx.result()


def main() -> int:
    ap = argparse.ArgumentParser()
    ap.add_argument("prop")
    ap.add_argument("--tier", default=os.environ.get("VERIF_TIER", "quick"), choices=["quick", "thorough"])
    ap.add_argument("--replay", default=None, help="run one replay file outside Hypothesis")
    ap.add_argument("--shard", type=int, default=None, help="(internal) run one shard and dump its result")
    ap.add_argument("--out", default=None)
    args = ap.parse_args()
    prop = args.prop.upper()
    seed = int(os.environ.get("VERIF_SEED", "1") or "1")
    t0 = time.time()

    if args.replay:
        env.assert_gemseo_tree()
        module = find_module(prop)
        scratch = make_scratch()
        try:
            doc = json.loads(Path(args.replay).read_text())
            ctx = core.Ctx(module, "quick", seed)
            ctx.ledger = {"open": [], "fixed": []}  # full oracle
            ctx.replaying = True
            try:
                module.ORACLES[doc["oracle"]](doc["payload"], ctx)
            except core.Violation as exc:
                print(f"replay fails: {exc}")
                print(f"VIOLATION property={prop} replay={args.replay}")
                return 1
            except Exception as exc:  # noqa: BLE001
                if core.is_harness_fault(exc):
                    raise
                print(f"replay fails: {type(exc).__name__}: {exc}")
                print(f"VIOLATION property={prop} replay={args.replay}")
                return 1
            print("replay passes")
            return 0
        finally:
            shutil.rmtree(scratch, ignore_errors=True)

    if args.shard is not None:
        scratch = make_scratch()
        try:
            res = run_shard(prop, args.tier, seed, args.shard, N_SHARDS, replays=False)
            Path(args.out).write_text(json.dumps(res, default=str))
            return 0
        finally:
            shutil.rmtree(scratch, ignore_errors=True)

    scratch = make_scratch()
    try:
        module = find_module(prop)
        if args.tier == "quick" or getattr(module, "THOROUGH_SHARDS", N_SHARDS) <= 1:
            results = [run_shard(prop, args.tier, seed, 0, 1, replays=True)]
            n_shards = 1
        else:
            n_shards = min(N_SHARDS, getattr(module, "THOROUGH_SHARDS", N_SHARDS))
            # shard 0 (with the replay tier) in this process' children as well: all shards are subprocesses
            procs = []
            for i in range(n_shards):
                out = os.path.join(scratch, f"shard{i}.json")
                cmd = [sys.executable, str(VERIF / "run_check.py"), prop, "--tier", "thorough", "--shard", str(i), "--out", out]
                procs.append((i, out, subprocess.Popen(cmd, stdout=subprocess.PIPE, stderr=subprocess.STDOUT, text=True)))
            env.assert_gemseo_tree()
            ctx0 = core.Ctx(module, "thorough", seed, 0, n_shards)
            ctx0.run_replays()
            results = [ctx0.result()]
            for i, out, proc in procs:
                log, _ = proc.communicate()
                if proc.returncode != 0 or not os.path.exists(out):
                    print(f"HARNESS-ERROR: shard {i} exited {proc.returncode}\n{log[-6000:]}")
                    return 2
                results.append(json.loads(Path(out).read_text()))
        merged = core.merge_results(results)
        wall = time.time() - t0
        path = core.write_evidence(module, args.tier, seed, merged, wall, n_shards)
        for line in merged["known_lines"]:
            print(line)
        for note in merged["notes"]:
            print(f"note: {note}")
        for inc in merged["inconclusive"]:
            print(f"inconclusive: {inc}")
        print(
            f"{prop} tier={args.tier} seed={seed} cases={merged['evaluations']} nontrivial={len(merged['nontrivial'])} "
            f"excluded={sum(merged['excluded'].values())} violations={len(merged['violations'])} wall={wall:.1f}s evidence={path}"
        )
        if merged["violations"]:
            for v in merged["violations"]:
                print(f"  oracle={v['sub_oracle']}: {v['message'][:600]}")
                print(f"VIOLATION property={prop} replay={v['replay']}")
            return 1
        return 0
    finally:
        shutil.rmtree(scratch, ignore_errors=True)


if __name__ == "__main__":
    try:
        rc = main()
    except core.HarnessError as exc:
        print(f"HARNESS-ERROR: {exc}")
        rc = 2
    except SystemExit as exc:
        rc = exc.code if isinstance(exc.code, int) else 2
    except BaseException:  # noqa: BLE001
        print("HARNESS-ERROR: " + traceback.format_exc())
        rc = 2
    sys.stdout.flush()
    sys.exit(rc)
