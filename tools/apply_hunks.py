#!/venv/bin/python
"""Apply selected hunks of a multi-file unified diff to /repo:  apply_hunks.py file.diff 0,1,5 [--list]"""
import re
import subprocess
import sys

text = open(sys.argv[1]).read()
files = re.split(r"(?m)^(?=diff --git )", text)
hunks = []  # (header, hunk)
for f in files:
    if not f.strip():
        continue
    head, *hs = re.split(r"(?m)^(?=@@ )", f)
    for h in hs:
        hunks.append((head, h))
if len(sys.argv) < 3 or sys.argv[2] == "--list":
    for i, (head, h) in enumerate(hunks):
        print(i, head.splitlines()[0].split(" b/")[-1], h.splitlines()[0])
    sys.exit(0)
sel = [int(i) for i in sys.argv[2].split(",")]
out, last = "", None
for i in sel:
    head, h = hunks[i]
    if head != last:
        out += head
        last = head
    out += h if h.endswith("\n") else h + "\n"
open("/tmp/_sel.diff", "w").write(out)
res = subprocess.run(["git", "-C", "/repo", "apply", "--recount", "/tmp/_sel.diff"], capture_output=True, text=True)
print(res.returncode, res.stderr)
sys.exit(res.returncode)
