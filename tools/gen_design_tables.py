#!/venv/bin/python
"""Regenerate the generated parts of DESIGN.md: section 10 (seeded changes) from seeded/*/meta.json."""

from __future__ import annotations

import json
import re
from pathlib import Path

VERIF = Path(__file__).resolve().parent.parent


def first_sentence(text: str, limit: int = 230) -> str:
    text = re.sub(r"\s+", " ", text).strip()
    return text if len(text) <= limit else text[: limit - 3] + "..."


def what_of(d: Path) -> str:
    notes = (d / "notes.md").read_text() if (d / "notes.md").exists() else ""
    diff = (d / "patch.diff").read_text()
    files = sorted({m.group(1).replace("src/gemseo/", "") for m in re.finditer(r"^\+\+\+ b/(\S+)", diff, re.M)})
    lines = [ln.strip("# *-").strip() for ln in notes.splitlines() if ln.strip() and not ln.startswith("```")]
    head = lines[0] if lines else ""
    if len(head) < 25 and len(lines) > 1:
        head = head + ": " + lines[1]
    return f"`{', '.join(files)}` - {first_sentence(head, 200)}"


def section9() -> str:
    d = json.loads((VERIF / "known_findings.json").read_text())
    why = json.loads((VERIF / "tools" / "why_not_repaired.json").read_text())
    rows = []
    for s in d["fixed"]:
        m = re.match(r"fixed: property=(C\d+) (\S+) (.*)", s)
        what = re.sub(r"\s*\([^()]*replays? [^()]*\)", "", m.group(3))
        rows.append((m.group(1), m.group(2), what.replace("|", "/")))
    rows.sort(key=lambda r: r[0])
    table = "| property | commit | defect (each has a regression replay under replays/<property>/) |\n|---|---|---|\n" + "\n".join(
        f"| {p} | {h} | {w} |" for p, h, w in rows)
    open_rows = sorted(
        f"| {e['id']} | {first_sentence(e['what'].replace('|', '/'), 300)} | {why.get(e['id'], 'not small and safe')} |"
        for e in d["findings"] if e["status"] == "open")
    otable = "| id | defect | why recorded rather than repaired |\n|---|---|---|\n" + "\n".join(open_rows)
    return f"""## 9. Genuine defects found (all reproduced by a registered check, replay kept)

{len(rows)} entries are repaired in `/repo` by minimal unguarded `fix:` commits (listed under `fixed` in
`known_findings.json`; this table is generated from it by `tools/gen_design_tables.py`). The repository's test suite
was re-run serially on the repaired tree (last on /repo HEAD 081827d, 7104 passed): the same 14 tests fail as on the pinned tree in this sandbox (13 of the
baseline's always-failing tests plus one image comparison that depends on the environment).

{table}

Recorded, not repaired ({len(open_rows)} open entries of `known_findings.json`; the check prints `KNOWN-FINDING`, excludes exactly
the class and counts the exclusions in the evidence):

{otable}

Observations outside the statements (not asserted, not ledgered) are listed in the module docstrings / ASSUMPTIONS of
the checks (e.g. iterating an empty `HDF5Cache` raises, `PYDOE_CCDESIGN` leaves the box by design, SLSQP stalling on
recorded points, `compute_pareto_optimal_points` dropping duplicated non-dominated points, operators declaring the
dimension of their first operand).

"""


def main() -> None:
    rows, n_caught, n_other, n_missed = [], 0, 0, 0
    for meta in sorted((VERIF / "seeded").glob("*/meta.json")):
        m = json.loads(meta.read_text())
        d = meta.parent
        caught = m.get("check", {}).get("caught")
        other = m.get("caught_by_other_check")
        if m.get("neutralised_by_fix"):
            verdict = f"caught on the tree it was made for; harmless since fix {m['neutralised_by_fix']}"
            n_caught += 1
        elif caught:
            verdict = "caught"
            n_caught += 1
        elif other:
            verdict = f"caught by {other['property']}'s check, not by its own"
            n_other += 1
        else:
            verdict = "MISSED"
            n_missed += 1
        report = (m.get("check", {}).get("first_reports") or [""])[0]
        report = first_sentence(report.replace("|", "/"), 150)
        hist = first_sentence(m.get("history", "").replace("|", "/"), 260)
        rows.append(f"| {m['id']} | {what_of(d).replace('|', '/')} | {verdict} | {report} | {hist} |")
    table = (
        "| id | change (file - first line of the seeding agent's notes) | quick check | first report | history |\n|---|---|---|---|---|\n" + "\n".join(rows)
    )
    text = f"""## 10. Seeded changes and which checks catch them

Fresh sub-agents were given only the text of one property (`tools/seed_brief.md`) and their own scratch git
worktree of `/repo` under `/tmp`, nothing from `/verif`, and asked for three realistic changes each that break the
property, still import, keep the relevant existing tests passing and need something specific to manifest, each with a
standalone `demo.py`. `tools/seed_intake.py` then confirmed every change in scratch copies of the *current* `/repo/src`
(patch applies; `demo.py` exits 0 without and non-zero with the change; for most, a selection of the existing tests
re-run with the change) and ran the registered quick check against the patched copy (`VERIF_GEMSEO_SRC`; equivalent to
`git -C /repo apply`, run, `git -C /repo checkout -- .`, but safe while other work reads `/repo`). Everything is kept
under `seeded/<id>/` (`patch.diff`, `demo.py`, `notes.md`, `meta.json`). `tools/mutation_audit.py <Cxx>` re-runs them
together with the hand-written mutants of `mutants/<Cxx>/`.

Result: {len(rows)} seeded changes, {n_caught} caught by the quick check of their property, {n_other} caught by the check of
the property that owns the changed code, {n_missed} missed (reason in the last column). Changes that were missed at first
led to stronger generators/oracles (last column); the oracles were never loosened.

{table}
"""
    p = VERIF / "DESIGN.md"
    s = p.read_text()
    a9 = s.index("## 9. Genuine defects found")
    a = s.index("## 10. Seeded changes")
    p.write_text(s[:a9] + section9() + text)
    print(f"{len(rows)} seeded: {n_caught} caught, {n_other} by other check, {n_missed} missed")


if __name__ == "__main__":
    main()
