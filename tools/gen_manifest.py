#!/venv/bin/python
"""Regenerate /verif/MANIFEST.json from the table below and validate it against the schema."""

from __future__ import annotations

import json
import sys
from pathlib import Path

VERIF = Path(__file__).resolve().parent.parent
sys.path.insert(0, str(VERIF))

PY = "/venv/bin/python"

# property id -> (level category, level text, level note, technique, design ref)
CHECKS: dict[str, dict] = {}


def reg(pid, text, note, technique, category="exploration"):
    CHECKS[pid] = {"category": category, "text": text, "note": note, "technique": technique}


reg(
    "C04",
    "Generated evaluation histories (missing values, NaN, ties, vector constraints, both constraint types, "
    "all tolerance/min-max/standardisation settings) are stored in a real OptimizationProblem and, after every "
    "prefix, optimum / feasible_points / last_point / OptimizationResult / ParetoFront are compared with an "
    "independent implementation of the documented selection rule. Random search over a small, densely sampled "
    "space: it cannot prove absence but every clause of the statement is an executable oracle.",
    "Trusted: numpy, the harness reference rule (checks/c04_optimum.py), Hypothesis' generators. Points with "
    "partially recorded constraints are only held to 'recorded, flagged infeasible, own fields'.",
    "property-based testing (Hypothesis) against a reference selection rule, prefix-wise",
)

reg(
    "C02",
    "A drawn list of up to 25 operations (all public mutations of DesignSpace interleaved with drawn cache-filling "
    "queries) is applied to a real DesignSpace and to a list-of-records model; after every mutation the cheap views "
    "(names, sizes, types, index ranges, per-variable bounds) and at every query / at the end all array views, "
    "normalisation, its inverse, gradient scalings, membership, projection, conversions and == are compared with the "
    "model. Sampling of histories: bounded length, no proof of absence; found and repaired 5 genuine defects.",
    "Trusted: numpy, the harness model (checks/c02_design_space.py). Inputs respect the documented preconditions "
    "(lb<=ub, integer bounds for integer variables, values inside bounds, rename to an unused name).",
    "model-based stateful property testing (Hypothesis operation lists) against a list-of-records reference model",
)

reg(
    "C01",
    "Generated design spaces (mixed float/integer, finite/infinite/equal bounds), polynomial functions with exact dense/sparse "
    "Jacobians and logging callables, every preprocessing configuration and a history of 1-15 value/Jacobian requests over a "
    "small point pool are run against a numpy reference of the normalise/round/evaluate/record pipeline: returned value, "
    "Jacobian in the caller's coordinates, database keys/entries/physical Jacobians and the exact set of calls of the user's "
    "callables are compared after every request. Sampling, not proof; approximated derivatives use analytic error bounds.",
    "Trusted: numpy, the harness reference (checks/c01_problem_eval.py, vlib/gen/problems.py). evaluate_functions' Jacobian "
    "coordinates with a physical vector on normalised functions are counted but not asserted (statement ambiguous).",
    "model-based property testing (Hypothesis request histories) against a numpy reference of the evaluation pipeline",
)
reg(
    "C05",
    "Drawn histories of execute/linearize calls (repeated, new, within-tolerance, partially defaulted and in-place modified "
    "inputs, differentiated-subset changes, cache.clear, HDF5 re-instantiation) on a harness discipline under every cache "
    "policy and tolerance; outputs and requested Jacobian blocks are compared exactly with the harness' numpy body and an "
    "uncached gemseo twin, the body-run counter with the number of distinct inputs, caller arrays before/after. Sampling.",
    "Trusted: numpy, the harness discipline body. Tolerance hits are only generated on grid classes >= 0.24 apart with members "
    "< t/2 apart so that 'within t' is unambiguous. Empty HDF5 caches are not iterated/cleared (robustness bug outside the statement).",
    "model-based property testing (Hypothesis operation lists) with an uncached twin and run counters as oracle",
)
reg(
    "C11",
    "Four generated round-trip families: Database store/export histories (append and overwrite, root and nested nodes, int and "
    "float keys, scalar/vector/matrix/empty entries) reloaded after every export and compared with a model and with a single "
    "final export; DesignSpace through HDF5/CSV/txt; OptimizationProblem.to_hdf/from_hdf field by field; HDF5Cache "
    "re-instantiated on its file. HDF5 comparisons exact, text to 1e-15 relative. Sampling, bounded history length.",
    "Trusted: numpy, h5py, the harness models. One target file/node per database (the pending buffer is per database). "
    "Functions of a reloaded problem are matched by name (their order is not part of the statement).",
    "round-trip property testing (Hypothesis store/export histories) against an in-memory model",
)
reg(
    "C18",
    "Generated learning sets, every derivative-capable regressor (Linear/Polynomial incl. penalised, RBF x 7 kernels x epsilon x "
    "smooth, TPS, PCE, hard MOE, RegressorChain, OT GP), whole-group transformers (scalers, PCA, pipelines) and query points: "
    "predict_jacobian is compared with a 3-step-size central stencil of predict under an adaptive tolerance, interpolating "
    "settings must reproduce the learning outputs, transformer round trips and Jacobians are checked against stencils, and "
    "SurrogateDiscipline must return exactly the model's predictions/Jacobians. Sampling; found and repaired 3 defects.",
    "Trusted: numpy, the stencil reference with its self-estimated discretisation error. PCE / OT-GP Jacobians are OpenTURNS' "
    "partly numerical gradients (tolerance floor 1e-4). Hard MOE is only checked away from class boundaries.",
    "differential property testing (Hypothesis): model Jacobian vs multi-step finite-difference stencil of its own prediction",
)

reg(
    "C10",
    "Random expression trees over scalar/vector polynomial, linear and quadratic functions with numbers and arrays (+ - * / neg "
    "offset) and every helper (restriction, linear composition, concatenation, MDOLinearFunction normalize/restrict/offset/neg, "
    "Taylor 1st/2nd order, convex linearisation, six aggregation functions, ConstraintAggregation discipline) are evaluated and "
    "differentiated against the harness' own forward-mode arithmetic (1e-11 relative), symbolically with sympy where the code is "
    "dtype-agnostic, with operand arrays checked unmodified and the KS/IKS/max bound sides asserted. Sampling of trees/points.",
    "Trusted: numpy, sympy, the harness dual-number evaluator. Denominators are bounded away from 0; numbers/arrays are second "
    "operands (no reflected operators exist). One open finding (ConvexLinearApprox reciprocal term, encoded by an existing test).",
    "property-based differential testing (Hypothesis expression trees) against dual-number and sympy references",
)
reg(
    "C15",
    "A drawn list of up to 34 edit/query operations drives a JSONGrammar, a SimpleGrammar (and a PydanticGrammar for shared "
    "operations) and plain Python models in lock-step in two slots; after every operation names/required names/defaults equal the "
    "model, validate() equals the model's verdict and, for JSON grammars, the verdict of the jsonschema reference validator on "
    "json.loads(to_json()); queries must not change the grammar; copies and pickles are probed for independence; the 25 JSON "
    "grammar files shipped with gemseo are validated against data generated from their schemas. Sampling, bounded histories.",
    "Trusted: jsonschema 4.26 (draft chosen by validator_for), the harness models. The model is tri-state for merged types "
    "(genson narrows them), undetermined verdicts are not asserted; namespaces maps are not part of the statement.",
    "model-based stateful property testing (Hypothesis operation lists) + differential testing against jsonschema",
)
reg(
    "C16",
    "FirstOrderFD, CenteredDifferences and ComplexStep are run on polynomials and sin*exp functions with harness-computed derivative "
    "bounds: shape, per-entry error within the analytic truncation + rounding bound for the step used, every point at which the "
    "function is called compared with the upper bounds of the design space, parallel == serial, for component subsets, per-component "
    "steps and points on/near bounds; discipline-level approximation modes and check_jacobian (names, indices, wrong entry inside/"
    "outside the checked region) inherit the same oracles. Sampling of functions/points/steps.",
    "Trusted: numpy, the analytic bounds M2 h/2 + r/h, M3 h^2/6 + r/h, M3 d^2/6 with r = 64 eps (F + M1 R). Steps in a numerically "
    "safe range; compute_optimal_step is not checked.",
    "property-based testing (Hypothesis) against analytic error bounds and call-point logging",
)

NOT_YET: dict[str, str] = {}


def main() -> int:
    props = [json.loads(line) for line in (VERIF / "properties.jsonl").read_text().splitlines() if line.strip()]
    ids = [p["id"] for p in props]
    checks = []
    for pid in ids:
        if pid not in CHECKS:
            continue
        c = CHECKS[pid]
        mods = sorted((VERIF / "checks").glob(f"{pid.lower()}_*.py"))
        assert len(mods) == 1, (pid, mods)
        checks.append({
            "property_id": pid,
            "quick_cmd": f"{PY} run_check.py {pid} --tier quick",
            "thorough_cmd": f"{PY} run_check.py {pid} --tier thorough",
            "evidence_file": f"evidence/{pid}.json",
            "replay_cmd_template": f"{PY} run_check.py {pid} --replay {{path}}",
            "engine": "hypothesis-runner",
            "level_claimed": {"category": c["category"], "text": c["text"], "design_ref": f"DESIGN.md section 4, {pid}"},
            "level_note": c["note"],
            "technique": c["technique"],
        })
    not_applicable = [
        {"property_id": pid, "reason": NOT_YET.get(pid, "not claimed yet: the generated-input check for this property is still being built (see DESIGN.md section 4 for its design)")}
        for pid in ids if pid not in CHECKS
    ]
    manifest = {
        "version": 1,
        "setup_cmd": f"{PY} vlib/env.py",
        "hooks": {
            "guard": "GEMSEO_VERIF",
            "enable": "no hooks are needed: counters, schedules and crash points live in harness callables and disciplines; checks import /repo/src directly (editable install)",
            "baseline_off_cmd": "cd /repo && /venv/bin/python -m pytest -ra -q -p no:cacheprovider --timeout=900 --continue-on-collection-errors",
            "source_commits": [],
            "add_only": True,
        },
        "engines": [{
            "name": "hypothesis-runner",
            "path": "run_check.py",
            "serves_properties": [c["property_id"] for c in checks],
            "kind_free_text": "Hypothesis 6.168 property-based testing (generated inputs / operation lists / enumerated schedules and crash points) "
                              "against explicit oracles; seeded by VERIF_SEED; shrunk failures saved as JSON replays; thorough tier = 16 seeded shards",
        }],
        "checks": checks,
        "not_applicable": not_applicable,
        "notes": "exit 0 = held (KNOWN-FINDING lines for ledger entries in known_findings.json), 1 = VIOLATION line printed, 2 = harness error. "
                 "Repairs of genuine defects are unguarded 'fix:' commits in /repo, listed under 'fixed' in known_findings.json.",
    }
    out = VERIF / "MANIFEST.json"
    out.write_text(json.dumps(manifest, indent=1) + "\n")
    try:
        sys.path.append(str(VERIF / ".deps"))
        import jsonschema

        schema = json.loads(Path("/root/.vp/MANIFEST.schema.json").read_text())
        jsonschema.validate(manifest, schema)
        print(f"MANIFEST.json valid: {len(checks)} checks, {len(not_applicable)} not claimed")
    except ImportError:
        print("jsonschema unavailable; manifest written but not validated")
    return 0


if __name__ == "__main__":
    sys.exit(main())
