#!/venv/bin/python
"""Regenerate /verif/MANIFEST.json from the table below and validate it against the schema."""

from __future__ import annotations

import json
import sys
from pathlib import Path

VERIF = Path(__file__).resolve().parent.parent
sys.path.insert(0, str(VERIF))

PY = "/venv/bin/python"

# property id -> (level category, level text, level note, technique, design ref)
CHECKS: dict[str, dict] = {}


def reg(pid, text, note, technique, category="exploration"):
    CHECKS[pid] = {"category": category, "text": text, "note": note, "technique": technique}


reg(
    "C04",
    "Generated evaluation histories (missing values, NaN, ties, vector constraints, both constraint types, "
    "all tolerance/min-max/standardisation settings) are stored in a real OptimizationProblem and, after every "
    "prefix, optimum / feasible_points / last_point / OptimizationResult / ParetoFront are compared with an "
    "independent implementation of the documented selection rule. Random search over a small, densely sampled "
    "space: it cannot prove absence but every clause of the statement is an executable oracle.",
    "Trusted: numpy, the harness reference rule (checks/c04_optimum.py), Hypothesis' generators. Points with "
    "partially recorded constraints are only held to 'recorded, flagged infeasible, own fields'.",
    "property-based testing (Hypothesis) against a reference selection rule, prefix-wise",
)

reg(
    "C02",
    "A drawn list of up to 25 operations (all public mutations of DesignSpace interleaved with drawn cache-filling "
    "queries) is applied to a real DesignSpace and to a list-of-records model; after every mutation the cheap views "
    "(names, sizes, types, index ranges, per-variable bounds) and at every query / at the end all array views, "
    "normalisation, its inverse, gradient scalings, membership, projection, conversions and == are compared with the "
    "model. Sampling of histories: bounded length, no proof of absence; found and repaired 5 genuine defects.",
    "Trusted: numpy, the harness model (checks/c02_design_space.py). Inputs respect the documented preconditions "
    "(lb<=ub, integer bounds for integer variables, values inside bounds, rename to an unused name).",
    "model-based stateful property testing (Hypothesis operation lists) against a list-of-records reference model",
)

NOT_YET: dict[str, str] = {}


def main() -> int:
    props = [json.loads(line) for line in (VERIF / "properties.jsonl").read_text().splitlines() if line.strip()]
    ids = [p["id"] for p in props]
    checks = []
    for pid in ids:
        if pid not in CHECKS:
            continue
        c = CHECKS[pid]
        mods = sorted((VERIF / "checks").glob(f"{pid.lower()}_*.py"))
        assert len(mods) == 1, (pid, mods)
        checks.append({
            "property_id": pid,
            "quick_cmd": f"{PY} run_check.py {pid} --tier quick",
            "thorough_cmd": f"{PY} run_check.py {pid} --tier thorough",
            "evidence_file": f"evidence/{pid}.json",
            "replay_cmd_template": f"{PY} run_check.py {pid} --replay {{path}}",
            "engine": "hypothesis-runner",
            "level_claimed": {"category": c["category"], "text": c["text"], "design_ref": f"DESIGN.md section 4, {pid}"},
            "level_note": c["note"],
            "technique": c["technique"],
        })
    not_applicable = [
        {"property_id": pid, "reason": NOT_YET.get(pid, "not claimed yet: the generated-input check for this property is still being built (see DESIGN.md section 4 for its design)")}
        for pid in ids if pid not in CHECKS
    ]
    manifest = {
        "version": 1,
        "setup_cmd": f"{PY} vlib/env.py",
        "hooks": {
            "guard": "GEMSEO_VERIF",
            "enable": "no hooks are needed: counters, schedules and crash points live in harness callables and disciplines; checks import /repo/src directly (editable install)",
            "baseline_off_cmd": "cd /repo && /venv/bin/python -m pytest -ra -q -p no:cacheprovider --timeout=900 --continue-on-collection-errors",
            "source_commits": [],
            "add_only": True,
        },
        "engines": [{
            "name": "hypothesis-runner",
            "path": "run_check.py",
            "serves_properties": [c["property_id"] for c in checks],
            "kind_free_text": "Hypothesis 6.168 property-based testing (generated inputs / operation lists / enumerated schedules and crash points) "
                              "against explicit oracles; seeded by VERIF_SEED; shrunk failures saved as JSON replays; thorough tier = 16 seeded shards",
        }],
        "checks": checks,
        "not_applicable": not_applicable,
        "notes": "exit 0 = held (KNOWN-FINDING lines for ledger entries in known_findings.json), 1 = VIOLATION line printed, 2 = harness error. "
                 "Repairs of genuine defects are unguarded 'fix:' commits in /repo, listed under 'fixed' in known_findings.json.",
    }
    out = VERIF / "MANIFEST.json"
    out.write_text(json.dumps(manifest, indent=1) + "\n")
    try:
        sys.path.append(str(VERIF / ".deps"))
        import jsonschema

        schema = json.loads(Path("/root/.vp/MANIFEST.schema.json").read_text())
        jsonschema.validate(manifest, schema)
        print(f"MANIFEST.json valid: {len(checks)} checks, {len(not_applicable)} not claimed")
    except ImportError:
        print("jsonschema unavailable; manifest written but not validated")
    return 0


if __name__ == "__main__":
    sys.exit(main())
