#!/venv/bin/python
"""Regenerate /verif/MANIFEST.json from the table below and validate it against the schema."""

from __future__ import annotations

import json
import sys
from pathlib import Path

VERIF = Path(__file__).resolve().parent.parent
sys.path.insert(0, str(VERIF))

PY = "/venv/bin/python"

# property id -> (level category, level text, level note, technique, design ref)
CHECKS: dict[str, dict] = {}


def reg(pid, text, note, technique, category="exploration"):
    CHECKS[pid] = {"category": category, "text": text, "note": note, "technique": technique}


reg(
    "C04",
    "Generated evaluation histories (missing values, NaN, ties, vector constraints, both constraint types, "
    "all tolerance/min-max/standardisation settings) are stored in a real OptimizationProblem and, after every "
    "prefix, optimum / feasible_points / last_point / OptimizationResult / ParetoFront are compared with an "
    "independent implementation of the documented selection rule. Random search over a small, densely sampled "
    "space: it cannot prove absence but every clause of the statement is an executable oracle.",
    "Trusted: numpy, the harness reference rule (checks/c04_optimum.py), Hypothesis' generators. Points with "
    "partially recorded constraints are only held to 'recorded, flagged infeasible, own fields'.",
    "property-based testing (Hypothesis) against a reference selection rule, prefix-wise",
)

reg(
    "C02",
    "A drawn list of up to 25 operations (all public mutations of DesignSpace interleaved with drawn cache-filling "
    "queries) is applied to a real DesignSpace and to a list-of-records model; after every mutation the cheap views "
    "(names, sizes, types, index ranges, per-variable bounds) and at every query / at the end all array views, "
    "normalisation, its inverse, gradient scalings, membership, projection, conversions and == are compared with the "
    "model. Sampling of histories: bounded length, no proof of absence; found and repaired 5 genuine defects.",
    "Trusted: numpy, the harness model (checks/c02_design_space.py). Inputs respect the documented preconditions "
    "(lb<=ub, integer bounds for integer variables, values inside bounds, rename to an unused name).",
    "model-based stateful property testing (Hypothesis operation lists) against a list-of-records reference model",
)

reg(
    "C01",
    "Generated design spaces (mixed float/integer, finite/infinite/equal bounds), polynomial functions with exact dense/sparse "
    "Jacobians and logging callables, every preprocessing configuration and a history of 1-15 value/Jacobian requests over a "
    "small point pool are run against a numpy reference of the normalise/round/evaluate/record pipeline: returned value, "
    "Jacobian in the caller's coordinates, database keys/entries/physical Jacobians and the exact set of calls of the user's "
    "callables are compared after every request. Sampling, not proof; approximated derivatives use analytic error bounds.",
    "Trusted: numpy, the harness reference (checks/c01_problem_eval.py, vlib/gen/problems.py). evaluate_functions' Jacobian "
    "coordinates with a physical vector on normalised functions are counted but not asserted (statement ambiguous).",
    "model-based property testing (Hypothesis request histories) against a numpy reference of the evaluation pipeline",
)
reg(
    "C05",
    "Drawn histories of execute/linearize calls (repeated, new, within-tolerance, partially defaulted and in-place modified "
    "inputs, differentiated-subset changes, cache.clear, HDF5 re-instantiation) on a harness discipline under every cache "
    "policy and tolerance; outputs and requested Jacobian blocks are compared exactly with the harness' numpy body and an "
    "uncached gemseo twin, the body-run counter with the number of distinct inputs, caller arrays before/after. Sampling.",
    "Trusted: numpy, the harness discipline body. Tolerance hits are only generated on grid classes >= 0.24 apart with members "
    "< t/2 apart so that 'within t' is unambiguous. Empty HDF5 caches are not iterated/cleared (robustness bug outside the statement).",
    "model-based property testing (Hypothesis operation lists) with an uncached twin and run counters as oracle",
)
reg(
    "C11",
    "Four generated round-trip families: Database store/export histories (append and overwrite, root and nested nodes, int and "
    "float keys, scalar/vector/matrix/empty entries) reloaded after every export and compared with a model and with a single "
    "final export; DesignSpace through HDF5/CSV/txt; OptimizationProblem.to_hdf/from_hdf field by field; HDF5Cache "
    "re-instantiated on its file. HDF5 comparisons exact, text to 1e-15 relative. Sampling, bounded history length.",
    "Trusted: numpy, h5py, the harness models. One target file/node per database (the pending buffer is per database). "
    "Functions of a reloaded problem are matched by name (their order is not part of the statement).",
    "round-trip property testing (Hypothesis store/export histories) against an in-memory model",
)
reg(
    "C18",
    "Generated learning sets, every derivative-capable regressor (Linear/Polynomial incl. penalised, RBF x 7 kernels x epsilon x "
    "smooth, TPS, PCE, hard MOE, RegressorChain, OT GP), whole-group transformers (scalers, PCA, pipelines) and query points: "
    "predict_jacobian is compared with a 3-step-size central stencil of predict under an adaptive tolerance, interpolating "
    "settings must reproduce the learning outputs, transformer round trips and Jacobians are checked against stencils, and "
    "SurrogateDiscipline must return exactly the model's predictions/Jacobians. Sampling; found and repaired 3 defects.",
    "Trusted: numpy, the stencil reference with its self-estimated discretisation error. PCE / OT-GP Jacobians are OpenTURNS' "
    "partly numerical gradients (tolerance floor 1e-4). Hard MOE is only checked away from class boundaries.",
    "differential property testing (Hypothesis): model Jacobian vs multi-step finite-difference stencil of its own prediction",
)

reg(
    "C10",
    "Random expression trees over scalar/vector polynomial, linear and quadratic functions with numbers and arrays (+ - * / neg "
    "offset) and every helper (restriction, linear composition, concatenation, MDOLinearFunction normalize/restrict/offset/neg, "
    "Taylor 1st/2nd order, convex linearisation, six aggregation functions, ConstraintAggregation discipline) are evaluated and "
    "differentiated against the harness' own forward-mode arithmetic (1e-11 relative), symbolically with sympy where the code is "
    "dtype-agnostic, with operand arrays checked unmodified and the KS/IKS/max bound sides asserted. Sampling of trees/points.",
    "Trusted: numpy, sympy, the harness dual-number evaluator. Denominators are bounded away from 0; numbers/arrays are second "
    "operands (no reflected operators exist). One open finding (ConvexLinearApprox reciprocal term, encoded by an existing test).",
    "property-based differential testing (Hypothesis expression trees) against dual-number and sympy references",
)
reg(
    "C15",
    "A drawn list of up to 34 edit/query operations drives a JSONGrammar, a SimpleGrammar (and a PydanticGrammar for shared "
    "operations) and plain Python models in lock-step in two slots; after every operation names/required names/defaults equal the "
    "model, validate() equals the model's verdict and, for JSON grammars, the verdict of the jsonschema reference validator on "
    "json.loads(to_json()); queries must not change the grammar; copies and pickles are probed for independence; the 25 JSON "
    "grammar files shipped with gemseo are validated against data generated from their schemas. Sampling, bounded histories.",
    "Trusted: jsonschema 4.26 (draft chosen by validator_for), the harness models. The model is tri-state for merged types "
    "(genson narrows them), undetermined verdicts are not asserted; namespaces maps are not part of the statement.",
    "model-based stateful property testing (Hypothesis operation lists) + differential testing against jsonschema",
)
reg(
    "C16",
    "FirstOrderFD, CenteredDifferences and ComplexStep are run on polynomials and sin*exp functions with harness-computed derivative "
    "bounds: shape, per-entry error within the analytic truncation + rounding bound for the step used, every point at which the "
    "function is called compared with the upper bounds of the design space, parallel == serial, for component subsets, per-component "
    "steps and points on/near bounds; discipline-level approximation modes and check_jacobian (names, indices, wrong entry inside/"
    "outside the checked region) inherit the same oracles. Sampling of functions/points/steps.",
    "Trusted: numpy, the analytic bounds M2 h/2 + r/h, M3 h^2/6 + r/h, M3 d^2/6 with r = 64 eps (F + M1 R). Steps in a numerically "
    "safe range; compute_optimal_step is not checked.",
    "property-based testing (Hypothesis) against analytic error bounds and call-point logging",
)

reg(
    "C06",
    "Generated contractive linear / mildly non-linear coupled systems (2-5 disciplines, unequal sizes, several SCCs, weak and "
    "self-coupled disciplines) are solved by every MDA class and composition (Jacobi, Gauss-Seidel, Newton-Raphson, quasi-Newton, "
    "GS-Newton, sequential, MDAChain with each inner MDA) under every acceleration, relaxation, scaling, warm start and listing "
    "order; the returned data are re-executed by a plain-numpy twin (fixed-point defect <= 2 q rho), compared with the exact "
    "solution and pairwise between configurations. Sampling of systems and settings; 4 open findings excluded by class.",
    "Trusted: numpy, the twin model of vlib/gen/coupled.py (contraction factor q <= 0.3 by construction). Budget exhaustion of "
    "SciPy root finders and degenerate MINPACK steps are counted as inconclusive, never as violations.",
    "property-based metamorphic/differential testing (Hypothesis) against an exact numpy solution of generated systems",
)
reg(
    "C07",
    "On the same generated systems (MDA converged to 1e-14), 1-3 accumulated linearisation requests over random input/output "
    "subsets are made under every mode (auto/direct/adjoint), matrix type, LU option and linear solver, for Jacobi, Gauss-Seidel, "
    "Newton and MDAChain, with weakly coupled, self-coupled and residual/state-form disciplines; every returned block must have "
    "the right shape and equal the closed-form implicit-function expression assembled densely by the harness (1e-9; 1e-7 Krylov).",
    "Trusted: numpy.linalg.solve on well-conditioned systems (cond <= (1+q)/(1-q)), the twin's exact partials. Krylov breakdowns "
    "and logged non-convergence are inconclusive for that solver only.",
    "property-based differential testing (Hypothesis) against the closed-form implicit-function derivative",
)
reg(
    "C08",
    "Exhaustive: every digraph with self-loops on n <= 3 nodes x every listing order (plus duplicated names), in the thorough tier "
    "also all 65536 graphs on 4 nodes x all 24 orders (a seeded slice in quick); random graphs on 5-9 nodes. CouplingStructure's "
    "sequence, groups, stages and coupling sets are judged against the harness' own boolean reachability closure; the same "
    "realisations with linear contractive semantics are executed by MDAChain / MDOChain / MDOInitializationChain and compared "
    "with numpy.linalg.solve for every listing order.",
    "Trusted: numpy, the harness closure (vlib/gen/graphs.py). Coupling-set checks use the narrowest/widest reading of the "
    "docstrings (they coincide in about half of the cases). exhaustive_n_le_3 is set only when the enumeration completed.",
    "exhaustive enumeration (n <= 3, n = 4 in thorough) + Hypothesis random graphs against a reachability-closure oracle",
)
reg(
    "C09",
    "Drawn trees of chain/parallel nodes over up to 9 polynomial disciplines (exact dense/sparse/operator partials, pass-through, "
    "in-place and overwritten variables), wrapped as MDOChain / MDOParallelChain / MDOAdditiveChain / MDAChain (both "
    "chain_linearize settings), receive 1-4 successive execute/linearize requests (all Jacobians or cumulative subsets); every "
    "returned block (shape, zero blocks for independent pairs, values to 1e-10) is compared with a harness forward-mode "
    "accumulation along the execution order. Sampling; 3 open findings (in/out and overwritten variables) excluded by class.",
    "Trusted: numpy, the forward-mode reference (vlib/gen/graphs.py); the code under test accumulates in reverse mode. "
    "Exactness for all points follows for polynomial disciplines only as far as sampled points separate polynomials.",
    "property-based differential testing (Hypothesis compositions and request histories) against forward-mode accumulation",
)
reg(
    "C12",
    "For each drawn configuration (SLSQP / L-BFGS-B / NLOPT_COBYLA / LHS / fullfact / CustomDOE, one or two disciplines, backup at "
    "each call / iteration / both, file absent or holding an earlier crashed run's prefix loaded or erased, normalised or not, "
    "budget 5-15) a forked reference run records every database store, then EVERY crash point k = 1..K is enumerated: a forked "
    "child dies with os._exit(17) at the start of its k-th discipline execution; the backup must load and equal the prefix "
    "snapshot the policy implies, and a restarted child must not re-execute stored points, keep the loaded entries, report an "
    "optimum at least as good, and (un-normalised, counters kept) reproduce the uninterrupted history entry by entry.",
    "Crash points are process deaths at the start of a discipline execution (as the property quantifies), not inside an HDF5 "
    "write. Reusing a file with load=False, erase=False is outside the statement. Trusted: os.fork semantics, h5py.",
    "fault enumeration: every crash point of Hypothesis-drawn configurations, forked children, prefix/restart oracles",
    category="fault_enumeration",
)
reg(
    "C14",
    "26 DOE algorithms (SciPy, OpenTURNS, pyDOE, Diagonal, Morris, Custom) x generated bounded spaces (mixed float/integer, sizes > 1, "
    "each component in its own disjoint slot so that a column can only satisfy its own bounds) x sample counts at the boundaries of "
    "each count formula x seeds, through compute_doe and library.execute: shape, box membership, integrality, count rule, unit "
    "samples in [0,1], samples == lb + u (ub - lb) with rounding, database keys == samples in order, bit-identical regeneration "
    "under the same (effective) seed. Sampling; 3 open findings.",
    "Third-party preconditions restrict the generator (SciPy Lloyd needs d >= 2, n >= d+2, ...). Bound tolerance 100 eps max(1,|lb|,|ub|) "
    "(the design space's own); measured maximum excess 1 ulp.",
    "property-based testing (Hypothesis) with an affine-image reference and seed-determinism (metamorphic) oracle",
)
reg(
    "C17",
    "On generated coupled systems with objective/constraints chosen among discipline outputs: MDF at x against the closed form "
    "f(x, y*(x)) and its implicit-function total derivative, IDF at (x, y*(x)) and perturbed targets against the twins' values and "
    "partials, consistency constraints (value, normalisation, Jacobian, vanishing at y*), MDF's Jacobian rebuilt from IDF's own "
    "functions, design-space contents and order, IDF rejecting a missing coupling, DisciplinaryOpt on acyclic systems, every inner "
    "MDA; thorough tier: strictly convex QPs solved by SLSQP under each formulation against the exact active-set optimum.",
    "Trusted: numpy, vlib/gen/coupled.py twins, the harness QP solver (active-set enumeration). BiLevel is not covered. IDF is held "
    "to what the code documents (all couplings, weak included).",
    "property-based differential testing (Hypothesis) between formulations and against closed-form values/derivatives",
)
reg(
    "C19",
    "SciPy and OpenTURNS distribution families (incl. truncations, affine transformations and by-name generic classes) with "
    "harness-written closed-form moments, supports and cdfs: mean/std/support/range, cdf against the reference, cdf o icdf and "
    "icdf o cdf round trips, samples inside the support and within Kolmogorov distance 4/sqrt(n), cross-library agreement; "
    "ParameterSpaces mixing random vectors and deterministic variables: (un)transform against the reference cdf / affine map, round "
    "trips, 1-D vs 2-D, compute_samples per column; EmpiricalStatistics against numpy on the same data.",
    "Trusted: math, scipy.special.betainc/gammainc (reference only), numpy. RNGs re-seeded from a drawn integer per case. "
    "OpenTURNS CompositeDistribution is a discretisation (1e-4 slack); icdf o cdf asserted for p in [1e-4, 1-1e-4]. 1 open finding (SciPy beta.ppf NaN).",
    "property-based testing (Hypothesis) against closed-form laws, round trips and cross-library differential comparison",
)

reg(
    "C13",
    "The harness owns the schedule: every task blocks on its own gate and a controller releases, among the running tasks, the one "
    "ranked first by a generated priority, which realises exactly the completion orders a FIFO pool of W workers allows. "
    "Exhaustive in quick: threads, n <= 3 tasks, every worker count, every failing subset, 4 callable/callback modes (+ a seeded "
    "slice of {ok, ValueError, custom}^n for n in 3..4, 40 gated forked-process schedules); thorough: threads n <= 5 and processes "
    "n <= 4 x <= 3 workers completely. Oracles: positional results, None for failed slots, callbacks exactly once per success with "
    "the matching index, re-raise rules, termination. Derived equivalences (parallel DOE, DiscParallelExecution/Linearization, "
    "MDOParallelChain, parallel finite differences, shared MemoryFullCache) are compared with sequential twins and closed forms.",
    "Interleavings inside gemseo's own critical sections are not controlled (sampled only). Gate/start time-outs are harness "
    "errors (exit 2), never violations; a gemseo call that does not return 45 s after every task was released is a violation.",
    "schedule enumeration with harness-gated workers (exhaustive for small task counts) + Hypothesis for larger ones",
)

reg(
    "C03",
    "One Hypothesis stream per algorithm so that every run covers all of them: 17 single-level optimisers, 3 composites "
    "(documented per-level budgets) and 30 DOE algorithms exposed by the factories, each on problems drawn inside its declared "
    "capabilities (constraint kinds, linear-only, integer handling, gradient need), budgets 1-25, NaN-producing / raising "
    "functions, normalisation and database settings, second executions with and without counter reset. Counting wrappers around "
    "the original callables record the physical point of every call: database growth <= N, <= N distinct new points (derivative "
    "probes clustered), counter == new entries, execute returns a result (never raises) built from the history for max_iter, "
    "tolerance, time-limit (max_time=1e-9) and NaN stops; DOE: keys == de-duplicated samples in generation order, each evaluated "
    "once, failing samples skipped. 4 open findings excluded by class.",
    "Algorithms whose wrapper cannot run in this sandbox are skipped and named in the evidence (skipped_algorithms). MNBI is "
    "excluded (ASSUMPTIONS). A 30 s SIGALRM watchdog turns a stalled third-party optimiser into 'inconclusive', never a violation.",
    "property-based testing (Hypothesis, one stream per algorithm) with call-counting oracles on generated problems",
)

reg(
    "C20",
    "A recipe table instantiates 57 of the 62 classes of DisciplineFactory and MDAFactory (5 need external tools and are listed in "
    "the evidence), MDO/DOE scenarios, 18 MDOFunction kinds incl. ProblemFunction, Design/ParameterSpaces and "
    "OptimizationProblems; Hypothesis draws grammar type, cache type (none/Simple/MemoryFull/HDF5), life moment (fresh, after "
    "executions, linearisations, a failed run, a scenario run), channel (pickle protocols, to_pickle/from_pickle, a forked worker "
    "that executes and returns the object) and inputs. The restored object must have an equal snapshot (grammars, defaults, cache "
    "content, local data, Jacobian, counters, settings, recursively), give bit-identical outputs/Jacobians/results/databases with "
    "identical counter increments, stay attached to its HDF5 file, and be independent of the original under 1-4 mutations.",
    "History-dependent objects (MDAs, warm-started chains, adapters) are compared on exposed state only. SciPy frozen "
    "distributions' samples are not compared (private RandomState travels). A 300 s per-case watchdog yields 'inconclusive'.",
    "round-trip / differential property testing (Hypothesis over a class recipe table) of pickled vs original objects",
)

NOT_YET: dict[str, str] = {}


def main() -> int:
    props = [json.loads(line) for line in (VERIF / "properties.jsonl").read_text().splitlines() if line.strip()]
    ids = [p["id"] for p in props]
    checks = []
    for pid in ids:
        if pid not in CHECKS:
            continue
        c = CHECKS[pid]
        mods = sorted((VERIF / "checks").glob(f"{pid.lower()}_*.py"))
        assert len(mods) == 1, (pid, mods)
        checks.append({
            "property_id": pid,
            "quick_cmd": f"{PY} run_check.py {pid} --tier quick",
            "thorough_cmd": f"{PY} run_check.py {pid} --tier thorough",
            "evidence_file": f"evidence/{pid}.json",
            "replay_cmd_template": f"{PY} run_check.py {pid} --replay {{path}}",
            "engine": "hypothesis-runner",
            "level_claimed": {"category": c["category"], "text": c["text"], "design_ref": f"DESIGN.md section 4, {pid}"},
            "level_note": c["note"],
            "technique": c["technique"],
        })
    not_applicable = [
        {"property_id": pid, "reason": NOT_YET.get(pid, "not claimed yet: the generated-input check for this property is still being built (see DESIGN.md section 4 for its design)")}
        for pid in ids if pid not in CHECKS
    ]
    manifest = {
        "version": 1,
        "setup_cmd": f"{PY} vlib/env.py",
        "hooks": {
            "guard": "GEMSEO_VERIF",
            "enable": "no hooks are needed: counters, schedules and crash points live in harness callables and disciplines; checks import /repo/src directly (editable install)",
            "baseline_off_cmd": "cd /repo && /venv/bin/python -m pytest -ra -q -p no:cacheprovider --timeout=900 --continue-on-collection-errors",
            "source_commits": [],
            "add_only": True,
        },
        "engines": [{
            "name": "hypothesis-runner",
            "path": "run_check.py",
            "serves_properties": [c["property_id"] for c in checks],
            "kind_free_text": "Hypothesis 6.168 property-based testing (generated inputs / operation lists / enumerated schedules and crash points) "
                              "against explicit oracles; seeded by VERIF_SEED; shrunk failures saved as JSON replays; thorough tier = 16 seeded shards",
        }],
        "checks": checks,
        "not_applicable": not_applicable,
        "notes": "exit 0 = held (KNOWN-FINDING lines for ledger entries in known_findings.json), 1 = VIOLATION line printed, 2 = harness error. "
                 "Repairs of genuine defects are unguarded 'fix:' commits in /repo, listed under 'fixed' in known_findings.json.",
    }
    out = VERIF / "MANIFEST.json"
    out.write_text(json.dumps(manifest, indent=1) + "\n")
    try:
        sys.path.append(str(VERIF / ".deps"))
        import jsonschema

        schema = json.loads(Path("/root/.vp/MANIFEST.schema.json").read_text())
        jsonschema.validate(manifest, schema)
        print(f"MANIFEST.json valid: {len(checks)} checks, {len(not_applicable)} not claimed")
    except ImportError:
        print("jsonschema unavailable; manifest written but not validated")
    return 0


if __name__ == "__main__":
    sys.exit(main())
