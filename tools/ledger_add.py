#!/venv/bin/python
"""Append an entry to known_findings.json under a file lock (several builders may run at once).

    tools/ledger_add.py open  C16 C16-F1 fd_within_step_of_ub replays/C16/x.json "what fails"
    tools/ledger_add.py fixed C10 <commit> "what failed"
"""
import fcntl
import json
import sys
from pathlib import Path

LEDGER = Path(__file__).resolve().parent.parent / "known_findings.json"


def main():
    kind = sys.argv[1]
    with open(LEDGER, "r+") as fh:
        fcntl.flock(fh, fcntl.LOCK_EX)
        doc = json.load(fh)
        if kind == "open":
            prop, fid, predicate, replay, what = sys.argv[2:7]
            doc["findings"] = [e for e in doc["findings"] if e["id"] != fid]
            doc["findings"].append({"property": prop, "id": fid, "status": "open", "what": what, "predicate": predicate, "replay": replay})
        elif kind == "fixed":
            prop, commit, what = sys.argv[2:5]
            doc["fixed"].append(f"fixed: property={prop} {commit} {what}")
        elif kind == "close":
            fid = sys.argv[2]
            doc["findings"] = [e for e in doc["findings"] if e["id"] != fid]
        fh.seek(0)
        fh.truncate()
        json.dump(doc, fh, indent=1)
        fh.write("\n")


main()
