#!/venv/bin/python
"""Write the brief of a further seeding round: make_seed_brief.py <round> [Cxx ...]

Takes /tmp/seedprops/<Cxx>_brief2.md (round-2 brief: property text + the list of changes already explored),
retargets the worktree to /tmp/seed<round>_<Cxx> and extends the ALREADY EXPLORED list with the first line of
the notes of every change stored under seeded/<Cxx>-*/ so that the new round looks elsewhere.
"""

from __future__ import annotations

import re
import sys
from pathlib import Path

VERIF = Path(__file__).resolve().parent.parent


def main() -> None:
    rnd = sys.argv[1]
    props = sys.argv[2:] or [f"C{i:02d}" for i in range(1, 21)]
    for prop in props:
        src = Path(f"/tmp/seedprops/{prop}_brief2.md").read_text()
        src = src.replace(f"/tmp/seed2_{prop}", f"/tmp/seed{rnd}_{prop}")
        head, _, _tail = src.partition("ALREADY EXPLORED")
        lines = []
        for d in sorted((VERIF / "seeded").glob(f"{prop}-*")):
            notes = (d / "notes.md")
            diff = (d / "patch.diff").read_text() if (d / "patch.diff").exists() else ""
            files = sorted({m.group(1).replace("src/gemseo/", "") for m in re.finditer(r"^\+\+\+ b/(\S+)", diff, re.M)})
            first = ""
            if notes.exists():
                ls = [ln.strip("# *-").strip() for ln in notes.read_text().splitlines() if ln.strip() and not ln.startswith("```")]
                first = ls[0] if ls else ""
                if len(first) < 25 and len(ls) > 1:
                    first += ": " + ls[1]
            lines.append(f"- {', '.join(files)}: {first[:220]}")
        text = (head + "ALREADY EXPLORED by earlier rounds (do NOT repeat these or close variants; look at other functions, other "
                "clauses of the property, other settings, other kinds of mistakes - in particular multi-step histories and "
                "rarely used options):\n" + "\n".join(lines) + "\n")
        Path(f"/tmp/seedprops/{prop}_brief{rnd}.md").write_text(text)
        print(prop, len(lines), "explored")


if __name__ == "__main__":
    main()
