#!/venv/bin/python
"""Sensitivity audit: run a check against mutated scratch copies of /repo/src.

    tools/mutation_audit.py C04                  # every patch in mutants/C04/ and seeded/*/patch.diff for C04
    tools/mutation_audit.py C04 path/to.patch    # one patch
    tools/mutation_audit.py C04 --tier quick --jobs 4

A patch is a unified diff relative to /repo (paths a/src/gemseo/...).  Each mutant is applied
to a private copy of /repo/src under /dev/shm (removed afterwards) and the check is run with
VERIF_GEMSEO_SRC pointing at it.  A mutant is *killed* when the check exits 1.
Not a registered check: it documents which checks catch which changes (DESIGN.md section 9).
"""

from __future__ import annotations

import argparse
import json
import os
import shutil
import subprocess
import sys
import tempfile
from concurrent.futures import ThreadPoolExecutor
from pathlib import Path

VERIF = Path(__file__).resolve().parent.parent


def run_one(prop: str, patch: Path, tier: str, seed: str, budget_scale: str) -> dict:
    base = "/dev/shm" if os.access("/dev/shm", os.W_OK) else None
    scratch = tempfile.mkdtemp(prefix="mut-", dir=base)
    try:
        shutil.copytree("/repo/src", os.path.join(scratch, "src"))
        res = subprocess.run(["patch", "-p1", "-s", "-d", scratch, "-i", str(patch.resolve())], capture_output=True, text=True)
        if res.returncode != 0:
            return {"patch": str(patch), "status": "patch-failed", "log": res.stdout + res.stderr}
        envv = dict(os.environ, VERIF_GEMSEO_SRC=os.path.join(scratch, "src"), VERIF_SEED=seed, VERIF_BUDGET_SCALE=budget_scale,
                    VERIF_OUT_DIR=os.path.join(scratch, "out"))
        res = subprocess.run([sys.executable, str(VERIF / "run_check.py"), prop, "--tier", tier], capture_output=True, text=True, env=envv, cwd=VERIF)
        lines = [ln for ln in res.stdout.splitlines() if "VIOLATION" in ln or "oracle=" in ln or "HARNESS" in ln]
        status = {0: "SURVIVED", 1: "killed", 2: "harness-error"}.get(res.returncode, f"exit{res.returncode}")
        return {"patch": str(patch), "status": status, "lines": lines[:6], "tail": res.stdout[-1500:] if res.returncode == 2 else ""}
    finally:
        shutil.rmtree(scratch, ignore_errors=True)


def main() -> int:
    ap = argparse.ArgumentParser()
    ap.add_argument("prop")
    ap.add_argument("patches", nargs="*")
    ap.add_argument("--tier", default="quick")
    ap.add_argument("--seed", default="1")
    ap.add_argument("--scale", default="1")
    ap.add_argument("--jobs", type=int, default=4)
    args = ap.parse_args()
    prop = args.prop.upper()
    patches = [Path(p) for p in args.patches]
    if not patches:
        patches = sorted((VERIF / "mutants" / prop).glob("*.patch"))
        for meta in sorted((VERIF / "seeded").glob("*/meta.json")):
            m = json.loads(meta.read_text())
            # a seeded change that a later repair of /repo made harmless is kept for the record, not audited
            if m.get("property") == prop and not m.get("neutralised_by_fix"):
                patches.append(meta.parent / "patch.diff")
    if not patches:
        print("no patches")
        return 0
    with ThreadPoolExecutor(args.jobs) as pool:
        results = list(pool.map(lambda p: run_one(prop, p, args.tier, args.seed, args.scale), patches))
    survived = 0
    for r in results:
        print(f"{r['status']:14s} {r['patch']}")
        for ln in r.get("lines", []):
            print("      " + ln.strip()[:300])
        if r.get("tail"):
            print(r["tail"])
        if r.get("log"):
            print(r["log"])
        survived += r["status"] != "killed"
    print(f"{len(results) - survived}/{len(results)} killed")
    return 1 if survived else 0


if __name__ == "__main__":
    sys.exit(main())
