#!/venv/bin/python
"""Intake of independently seeded changes:  seed_intake.py C02 /tmp/seed_C02 [--tests "tests/algos/test_design_space.py ..."]

For each <worktree>/OUT/<i>/ (patch.diff, demo.py, notes.md written by a seeding sub-agent that saw only
the property text): confirm in scratch copies of /repo's CURRENT tree that the patch applies, that demo.py
exits 0 without the change and non-zero with it, optionally that the given existing tests still pass with it,
then run the registered quick check against the patched copy and store everything under
/verif/seeded/<Cxx>-<i>/ (patch.diff, demo.py, notes.md, meta.json).  Never touches /repo.
"""

from __future__ import annotations

import argparse
import json
import os
import shutil
import subprocess
import sys
import tempfile
from pathlib import Path

VERIF = Path(__file__).resolve().parent.parent
PY = "/venv/bin/python"


def run(cmd, env=None, cwd=None, timeout=3600):
    return subprocess.run(cmd, capture_output=True, text=True, env=env, cwd=cwd, timeout=timeout)


def main() -> int:
    ap = argparse.ArgumentParser()
    ap.add_argument("prop")
    ap.add_argument("worktree")
    ap.add_argument("--tests", default="")
    ap.add_argument("--only", default="")
    ap.add_argument("--seed", default="1")
    ap.add_argument("--prefix", default="", help="e.g. r2- for a second seeding round: ids become Cxx-r2-<i>")
    args = ap.parse_args()
    prop = args.prop.upper()
    out_root = Path(args.worktree) / "OUT"
    head = run(["git", "-C", "/repo", "rev-parse", "--short", "HEAD"]).stdout.strip()
    for d in sorted(p for p in out_root.iterdir() if p.is_dir() and (p / "patch.diff").exists()):
        if args.only and d.name not in args.only.split(","):
            continue
        sid = f"{prop}-{args.prefix}{d.name}"
        dest = VERIF / "seeded" / sid
        dest.mkdir(parents=True, exist_ok=True)
        for name in ("patch.diff", "demo.py", "notes.md"):
            if (d / name).exists():
                shutil.copy(d / name, dest / name)
        scratch = tempfile.mkdtemp(prefix="seed-", dir="/dev/shm")
        meta = {"id": sid, "property": prop, "repo_head_when_confirmed": head, "source": "independent sub-agent given only the property text and a scratch worktree"}
        try:
            base = os.path.join(scratch, "base")
            mut = os.path.join(scratch, "mut")
            for t in (base, mut):
                os.makedirs(t)
                shutil.copytree("/repo/src", os.path.join(t, "src"))
            r = run(["patch", "-p1", "-s", "-d", mut, "-i", str(dest / "patch.diff")])
            meta["patch_applies_to_current_tree"] = r.returncode == 0
            if r.returncode != 0:
                meta["patch_error"] = (r.stdout + r.stderr)[-800:]
                print(sid, "PATCH DOES NOT APPLY", meta["patch_error"])
                (dest / "meta.json").write_text(json.dumps(meta, indent=1))
                continue
            r = run([PY, "-c", "import gemseo"], env=dict(os.environ, PYTHONPATH=os.path.join(mut, "src")))
            meta["imports_with_change"] = r.returncode == 0
            demo = {}
            for label, tree in (("without_change", base), ("with_change", mut)):
                r = run([PY, str(dest / "demo.py")], env=dict(os.environ, PYTHONPATH=os.path.join(tree, "src")), cwd=scratch, timeout=900)
                demo[label] = {"exit": r.returncode, "tail": (r.stdout + r.stderr)[-400:]}
            meta["demo"] = demo
            meta["demo_confirms"] = demo["without_change"]["exit"] == 0 and demo["with_change"]["exit"] != 0
            if args.tests:
                shutil.copytree("/repo/tests", os.path.join(mut, "tests"))
                for extra in ("pyproject.toml", "conftest.py", "tox.ini", "setup.cfg"):
                    if os.path.exists(os.path.join("/repo", extra)):
                        shutil.copy(os.path.join("/repo", extra), mut)
                cmd = [PY, "-m", "pytest", "-q", "-p", "no:cacheprovider", "-x", "-n", "6", *args.tests.split()]
                r = run(cmd, env=dict(os.environ, PYTHONPATH=os.path.join(mut, "src")), cwd=mut, timeout=3000)
                tail = [ln for ln in r.stdout.splitlines() if " passed" in ln or " failed" in ln or ln.startswith("FAILED")]
                meta["existing_tests_with_change"] = {"cmd": " ".join(cmd), "summary": tail[-6:]}
            envv = dict(os.environ, VERIF_GEMSEO_SRC=os.path.join(mut, "src"), VERIF_SEED=args.seed, VERIF_OUT_DIR=os.path.join(scratch, "out"))
            r = run([PY, str(VERIF / "run_check.py"), prop, "--tier", "quick"], env=envv, cwd=VERIF, timeout=3000)
            lines = [ln.strip()[:400] for ln in r.stdout.splitlines() if "oracle=" in ln or "HARNESS" in ln]
            meta["check"] = {"cmd": f"run_check.py {prop} --tier quick (VERIF_SEED={args.seed}) against the patched copy", "exit": r.returncode,
                             "caught": r.returncode == 1, "first_reports": lines[:3]}
            print(sid, "demo_confirms=", meta["demo_confirms"], "caught=", meta["check"]["caught"], "exit", r.returncode, lines[:1])
            if r.returncode == 2:
                print(r.stdout[-1500:])
        finally:
            shutil.rmtree(scratch, ignore_errors=True)
        notes = (dest / "notes.md").read_text() if (dest / "notes.md").exists() else ""
        meta["needs_to_manifest"] = notes[:1500]
        (dest / "meta.json").write_text(json.dumps(meta, indent=1))
    return 0


if __name__ == "__main__":
    sys.exit(main())
