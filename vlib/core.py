"""Runner core: context, Hypothesis driver, replay store, ledger matching, evidence.

Every check module in /verif/checks exposes

    PROPERTY      "Cxx"
    LEVEL         "exploration" | "fault_enumeration"
    RULE          text: how cases are generated and what makes one non-trivial
    ASSUMPTIONS   list of strings
    ORACLES       {oracle_name: case_fn(payload, ctx)}   (used by the replay tier)
    KNOWN         {predicate_name: fn(payload, info) -> bool}  (ledger predicates; optional)
    run(ctx)      drives the oracles through ctx.drive(...)

A case function receives a JSON-serialisable payload (the drawn primitives only) and the
context; it reports a failure with ctx.fail(oracle, message, **info) which raises
Violation, or returns normally.
"""

from __future__ import annotations

import hashlib
import json
import math
import os
import sys
import time
import traceback
from collections import Counter
from pathlib import Path

VERIF = Path(__file__).resolve().parent.parent
REPLAYS = VERIF / "replays"
OUT = Path(os.environ.get("VERIF_OUT_DIR") or VERIF)  # mutation audits write elsewhere
EVIDENCE = OUT / "evidence"
LEDGER = Path(os.environ.get("VERIF_LEDGER") or VERIF / "known_findings.json")  # override: what-if runs with entries closed


class Violation(Exception):
    """An oracle of the property failed on a generated case."""

    def __init__(self, oracle: str, message: str, info: dict | None = None):
        super().__init__(f"[{oracle}] {message}")
        self.oracle = oracle
        self.message = message
        self.info = info or {}


class HarnessError(Exception):
    """The harness itself is wrong (never reported as a violation)."""


def jsonable(obj):
    """Convert numpy containers etc. into plain JSON values (for payloads/samples)."""
    import numpy as np

    if isinstance(obj, dict):
        return {str(k): jsonable(v) for k, v in obj.items()}
    if isinstance(obj, (list, tuple)):
        return [jsonable(v) for v in obj]
    if isinstance(obj, (set, frozenset)):
        return sorted(jsonable(v) for v in obj)
    if isinstance(obj, np.ndarray):
        return jsonable(obj.tolist())
    if isinstance(obj, (np.integer,)):
        return int(obj)
    if isinstance(obj, (np.floating,)):
        return jsonable(float(obj))
    if isinstance(obj, (np.bool_,)):
        return bool(obj)
    if isinstance(obj, complex):
        return {"re": obj.real, "im": obj.imag}
    if isinstance(obj, float):
        if math.isnan(obj):
            return "NaN"
        if math.isinf(obj):
            return "Infinity" if obj > 0 else "-Infinity"
        return obj
    if obj is None or isinstance(obj, (str, int, bool)):
        return obj
    return repr(obj)


def unjson_float(v):
    """Inverse of jsonable for floats."""
    if v == "NaN":
        return float("nan")
    if v == "Infinity":
        return float("inf")
    if v == "-Infinity":
        return float("-inf")
    return v


def digest(obj) -> str:
    return hashlib.sha1(json.dumps(jsonable(obj), sort_keys=True).encode()).hexdigest()


def _frames_of(exc: BaseException) -> list[str]:
    return [f.filename for f in traceback.extract_tb(exc.__traceback__)]


def is_harness_fault(exc: BaseException) -> bool:
    """An unexpected exception whose innermost frame is harness code is a harness bug.

    Exceptions raised from inside gemseo (or the libraries it calls) on a valid generated
    input are violations of "handled cleanly"; exceptions raised by harness lines are not.
    """
    frames = _frames_of(exc)
    if not frames:
        return True
    last = frames[-1]
    return str(VERIF) in last and "/.deps/" not in last


class Ctx:
    """Per-run context: counters, samples, violations, ledger."""

    MAX_SAMPLES = 8

    def __init__(self, module, tier: str, seed: int, shard: int = 0, n_shards: int = 1):
        self.module = module
        self.prop = module.PROPERTY
        self.tier = tier
        self.seed = seed
        self.shard = shard
        self.n_shards = n_shards
        self.evaluations = 0
        self.nontrivial: set[str] = set()
        self.classes: Counter = Counter()
        self.samples: list = []
        self.excluded: Counter = Counter()
        self.violations: list[dict] = []
        self.known_lines: list[str] = []
        self.notes: list[str] = []
        self.inconclusive: list[str] = []
        self.oracle_counts: Counter = Counter()
        self.extra: dict = {}
        self.t0 = time.time()
        self.replaying = False
        self._sample_stride = 1
        self.ledger = load_ledger(self.prop)
        self.budget_scale = float(os.environ.get("VERIF_BUDGET_SCALE", "1"))
        self.wall_budget = float(os.environ.get("VERIF_WALL_BUDGET", "0")) or None

    # ----- counters
    def case(self, oracle: str | None = None) -> None:
        self.evaluations += 1
        if oracle:
            self.oracle_counts[oracle] += 1

    def run(self) -> None:
        """One more execution of the code under test inside the current case (for cases holding several executions,
        each judged by the oracles): counted in `evaluations`, so that the distinct non-trivial executions stay a subset."""
        self.evaluations += 1

    def cls(self, *names: str) -> None:
        for n in names:
            self.classes[n] += 1

    def nontriv(self, key) -> None:
        """Record a case satisfying the non-triviality rule (deduplicated structurally)."""
        self.nontrivial.add(digest(key)[:16])

    def sample(self, obj) -> None:
        """Keep a few generated cases: the first four, then a rotating window of later ones."""
        if self.replaying:
            return
        self._sample_calls = getattr(self, "_sample_calls", 0) + 1
        if len(self.samples) < self.MAX_SAMPLES:
            self.samples.append(jsonable(obj))
        elif self._sample_calls % 53 == 0:
            slot = 4 + (self._sample_calls // 53) % (self.MAX_SAMPLES - 4)
            self.samples[slot] = jsonable(obj)

    def note(self, text: str) -> None:
        if text not in self.notes:
            self.notes.append(text)

    # ----- failure reporting from oracles
    def fail(self, oracle: str, message: str, **info):
        raise Violation(oracle, message, jsonable(info))

    def check(self, cond: bool, oracle: str, message: str, **info) -> None:
        if not cond:
            raise Violation(oracle, message, jsonable(info))

    def known(self, predicate: str, count: bool = True) -> bool:
        """True when an OPEN ledger entry with this predicate exists (case is excluded)."""
        for entry in self.ledger["open"]:
            if entry.get("predicate") == predicate:
                if count and not self.replaying:
                    self.excluded[predicate] += 1
                return True
        return False

    # ----- budgets
    def n(self, quick: int, thorough: int) -> int:
        """Number of cases for this process (thorough budgets are per shard)."""
        base = quick if self.tier == "quick" else thorough
        return max(1, int(base * self.budget_scale))

    def out_of_time(self) -> bool:
        return self.wall_budget is not None and (time.time() - self.t0) > self.wall_budget

    # ----- Hypothesis driver
    def drive(self, oracle: str, strategy, case_fn, quick: int, thorough: int, shrink_s: float | None = None):
        """Run case_fn on payloads drawn from strategy; record (shrunk) failures."""
        from hypothesis import HealthCheck, Phase, given, seed, settings

        if self.out_of_time():
            self.inconclusive.append(f"{oracle}: wall budget reached before start")
            return
        n = self.n(quick, thorough)
        if shrink_s is None:
            shrink_s = 40.0 if self.tier == "quick" else 240.0
        state = {"fail_payload": None, "fail_exc": None, "t_fail": None, "gave_up": False, "harness": None}
        ctx = self
        # distinct stream per (seed, shard, oracle)
        oseed = (self.seed * 1000 + self.shard) * 1009 + int(hashlib.sha1(oracle.encode()).hexdigest()[:6], 16)

        @seed(oseed)
        @settings(
            max_examples=n,
            database=None,
            deadline=None,
            derandomize=False,
            report_multiple_bugs=False,
            suppress_health_check=list(HealthCheck),
            phases=[Phase.generate, Phase.shrink],
            print_blob=False,
        )
        @given(strategy)
        def _test(payload):
            if state["t_fail"] is not None and time.time() - state["t_fail"] > shrink_s:
                state["gave_up"] = True
                return  # shrink budget exhausted: let the shrinker converge at once
            if state["t_fail"] is None and ctx.out_of_time():
                if not state["gave_up"]:
                    ctx.inconclusive.append(f"{oracle}: wall budget reached after {ctx.oracle_counts[oracle]} cases")
                state["gave_up"] = True
                return
            ctx.case(oracle)
            try:
                case_fn(payload, ctx)
            except Violation as exc:
                state["fail_payload"], state["fail_exc"] = payload, exc
                if state["t_fail"] is None:
                    state["t_fail"] = time.time()
                raise
            except (KeyboardInterrupt, SystemExit):
                raise
            except Exception as exc:  # unexpected exception
                if is_harness_fault(exc):
                    state["harness"] = (payload, exc, traceback.format_exc())
                state["fail_payload"], state["fail_exc"] = payload, exc
                if state["t_fail"] is None:
                    state["t_fail"] = time.time()
                raise

        try:
            _test()
        except (KeyboardInterrupt, SystemExit):
            raise
        except BaseException as exc:  # noqa: BLE001
            if state["fail_payload"] is None:
                # Hypothesis' own error (strategy bug, health check): harness fault
                raise HarnessError(f"{oracle}: {type(exc).__name__}: {exc}\n{traceback.format_exc()}") from exc
            if state["harness"] is not None and state["harness"][0] == state["fail_payload"]:
                payload, hexc, tb = state["harness"]
                raise HarnessError(
                    f"{oracle}: harness exception on payload {json.dumps(jsonable(payload))[:2000]}\n{tb}"
                ) from hexc
            self.record_violation(oracle, state["fail_payload"], state["fail_exc"], shrunk=not state["gave_up"])

    def enumerate(self, oracle: str, payloads, case_fn):
        """Exhaustive / explicit enumeration with the same failure handling (first failure stops)."""
        for payload in payloads:
            if self.out_of_time():
                self.inconclusive.append(f"{oracle}: wall budget reached after {self.oracle_counts[oracle]} cases")
                self.extra["exhaustive_interrupted"] = True
                return False
            self.case(oracle)
            try:
                case_fn(payload, self)
            except Violation as exc:
                self.record_violation(oracle, payload, exc, shrunk=False)
                return False
            except Exception as exc:  # noqa: BLE001
                if is_harness_fault(exc):
                    raise HarnessError(f"{oracle}: {traceback.format_exc()}") from exc
                self.record_violation(oracle, payload, exc, shrunk=False)
                return False
        return True

    def record_violation(self, oracle: str, payload, exc: BaseException, shrunk: bool = True) -> None:
        if isinstance(exc, Violation):
            sub, msg, info = exc.oracle, exc.message, exc.info
        else:
            tb = traceback.extract_tb(exc.__traceback__)
            where = ""
            for fr in reversed(tb):
                if "/gemseo/" in fr.filename:
                    where = f" at {fr.filename.split('/gemseo/')[-1]}:{fr.lineno}"
                    break
            sub, msg, info = f"{oracle}:exception", f"{type(exc).__name__}: {exc}{where}", {}
        doc = {
            "property": self.prop,
            "oracle": oracle,
            "sub_oracle": sub,
            "message": msg[:4000],
            "info": info,
            "payload": jsonable(payload),
            "seed": self.seed,
            "shard": self.shard,
            "tier": self.tier,
            "shrunk": shrunk,
        }
        d = OUT / "replays" / self.prop
        d.mkdir(parents=True, exist_ok=True)
        path = d / f"new-{oracle}-{digest(doc['payload'])[:10]}.json"
        path.write_text(json.dumps(doc, indent=1, sort_keys=True))
        doc["replay"] = str(path.relative_to(VERIF)) if OUT == VERIF else str(path)
        self.violations.append(doc)

    # ----- replay tier
    def run_replays(self) -> None:
        """Committed replays: open ledger entries must still fail (KNOWN-FINDING), others must pass."""
        d = REPLAYS / self.prop
        open_by_replay = {e.get("replay"): e for e in self.ledger["open"] if e.get("replay")}
        files = sorted(p for p in d.glob("*.json") if not p.name.startswith("new-")) if d.is_dir() else []
        self.replaying = True
        n_run = 0
        for path in files:
            rel = str(path.relative_to(VERIF))
            doc = json.loads(path.read_text())
            fn = self.module.ORACLES.get(doc["oracle"])
            if fn is None:
                raise HarnessError(f"replay {rel}: unknown oracle {doc['oracle']}")
            entry = open_by_replay.get(rel)
            failed, msg = False, ""
            n_run += 1
            saved_ledger = self.ledger
            try:
                if entry is not None:
                    # run with the entry closed so that the oracle is applied in full
                    self.ledger = {"open": [e for e in saved_ledger["open"] if e is not entry], "fixed": saved_ledger["fixed"]}
                fn(doc["payload"], self)
            except Violation as exc:
                failed, msg = True, str(exc)
            except Exception as exc:  # noqa: BLE001
                if is_harness_fault(exc):
                    raise HarnessError(f"replay {rel}: {traceback.format_exc()}") from exc
                failed, msg = True, f"{type(exc).__name__}: {exc}"
            finally:
                self.ledger = saved_ledger
            if entry is not None:
                if failed:
                    self.known_lines.append(f"KNOWN-FINDING: property={self.prop} {entry['id']} {entry['what']}")
                else:
                    self.notes.append(f"ledger entry {entry['id']} no longer reproduces from {rel} (defect gone?)")
            elif failed:
                self.violations.append({
                    "property": self.prop, "oracle": doc["oracle"], "sub_oracle": doc.get("sub_oracle", doc["oracle"]),
                    "message": "regression replay fails: " + msg[:2000], "payload": doc["payload"],
                    "replay": rel, "seed": self.seed, "tier": self.tier, "shrunk": True, "info": {},
                })
        self.replaying = False
        self.extra["replays_run"] = n_run
        for e in self.ledger["open"]:
            if not e.get("replay"):
                raise HarnessError(f"ledger entry {e['id']} has no replay file")

    # ----- shard result
    def result(self) -> dict:
        return {
            "evaluations": self.evaluations,
            "nontrivial": sorted(self.nontrivial),
            "classes": dict(self.classes),
            "samples": self.samples,
            "excluded": dict(self.excluded),
            "violations": self.violations,
            "known_lines": self.known_lines,
            "notes": self.notes,
            "inconclusive": self.inconclusive,
            "oracle_counts": dict(self.oracle_counts),
            "extra": self.extra,
        }


def load_ledger(prop: str) -> dict:
    if not LEDGER.exists():
        return {"open": [], "fixed": []}
    doc = json.loads(LEDGER.read_text())
    return {
        "open": [e for e in doc.get("findings", []) if e.get("property") == prop and e.get("status") == "open"],
        "fixed": [s for s in doc.get("fixed", []) if f"property={prop} " in s],
    }


def merge_results(results: list[dict]) -> dict:
    out = {
        "evaluations": 0, "nontrivial": set(), "classes": Counter(), "samples": [], "excluded": Counter(),
        "violations": [], "known_lines": [], "notes": [], "inconclusive": [], "oracle_counts": Counter(), "extra": {},
    }
    for r in results:
        out["evaluations"] += r["evaluations"]
        out["nontrivial"].update(r["nontrivial"])
        out["classes"].update(r["classes"])
        out["excluded"].update(r["excluded"])
        out["oracle_counts"].update(r["oracle_counts"])
        for s in r["samples"]:
            if len(out["samples"]) < 12:
                out["samples"].append(s)
        seen = {(v["oracle"], json.dumps(v["payload"], sort_keys=True)) for v in out["violations"]}
        for v in r["violations"]:
            if (v["oracle"], json.dumps(v["payload"], sort_keys=True)) not in seen:
                out["violations"].append(v)
        for key in ("known_lines", "notes", "inconclusive"):
            for line in r[key]:
                if line not in out[key]:
                    out[key].append(line)
        for k, v in r["extra"].items():
            if isinstance(v, bool):
                out["extra"][k] = out["extra"].get(k, v) and v if k.startswith("exhaustive") and not k.endswith("interrupted") else (out["extra"].get(k, False) or v)
            elif isinstance(v, (int, float)):
                out["extra"][k] = out["extra"].get(k, 0) + v if not k.startswith("max_") else max(out["extra"].get(k, v), v)
            elif isinstance(v, list):
                cur = out["extra"].setdefault(k, [])
                for item in v:
                    if item not in cur:
                        cur.append(item)
            elif isinstance(v, dict):
                cur = out["extra"].setdefault(k, {})
                for kk, vv in v.items():
                    if isinstance(vv, (int, float)) and not isinstance(vv, bool):
                        cur[kk] = cur.get(kk, 0) + vv
                    else:
                        cur[kk] = vv
            else:
                out["extra"][k] = v
    return out


def write_evidence(module, tier: str, seed: int, merged: dict, wall_s: float, n_shards: int) -> Path:
    EVIDENCE.mkdir(parents=True, exist_ok=True)
    # distinct non-trivial cases are a subset of the evaluations: a check that records several non-trivial
    # executions per generated case must count them with Ctx.run(); otherwise count conservatively
    nontriv = min(len(merged["nontrivial"]), merged["evaluations"])
    coverage = {
        "evaluations": merged["evaluations"],
        "distinct_nontrivial": nontriv,
        "rule": module.RULE,
        "samples": merged["samples"][:12],
        "classes": dict(sorted(merged["classes"].items())),
        "cases_per_oracle": dict(sorted(merged["oracle_counts"].items())),
        "excluded_by_known_finding": dict(merged["excluded"]),
        "known_findings_reported": merged["known_lines"],
        "inconclusive": merged["inconclusive"],
        "notes": merged["notes"],
        "shards": n_shards,
    }
    coverage.update(merged["extra"])
    doc = {
        "property_id": module.PROPERTY,
        "tier": tier,
        "seed": seed,
        "level": module.LEVEL,
        "coverage": coverage,
        "assumptions": list(module.ASSUMPTIONS),
        "wall_s": round(wall_s, 2),
        "violations": len(merged["violations"]),
    }
    path = EVIDENCE / f"{module.PROPERTY}.json"
    path.write_text(json.dumps(doc, indent=1, sort_keys=False, default=str))
    return path
