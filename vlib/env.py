"""Process bootstrap: environment variables, offline dependencies, import sanity.

Imported first by every entry point (before numpy / gemseo are loaded).
"""

from __future__ import annotations

import os
import subprocess
import sys
from pathlib import Path

VERIF = Path(__file__).resolve().parent.parent
DEPS = VERIF / ".deps"
WHEELS = "/opt/veriftools/wheels"
REPO_SRC = os.environ.get("VERIF_GEMSEO_SRC", "/repo/src")

# Pure-python / binary wheels needed by the reference validator of C15 (and atheris, best
# effort).  --no-deps so that numpy/scipy of the wheelhouse never shadow /venv's.
_DEP_PKGS = ["jsonschema", "jsonschema_specifications", "referencing", "rpds_py", "attrs"]
_OPTIONAL_PKGS = ["atheris"]


def _pin_env() -> None:
    os.environ.setdefault("PYTHONHASHSEED", "0")
    for var in ("OMP_NUM_THREADS", "OPENBLAS_NUM_THREADS", "MKL_NUM_THREADS", "NUMEXPR_NUM_THREADS"):
        os.environ.setdefault(var, "1")
    os.environ.setdefault("PIP_NO_INDEX", "1")
    os.environ.setdefault("HDF5_USE_FILE_LOCKING", "FALSE")


def _pip_install(pkgs: list[str]) -> bool:
    cmd = [
        sys.executable, "-m", "pip", "install", "--quiet", "--no-index", "--no-deps",
        "--find-links", WHEELS, "--target", str(DEPS), *pkgs,
    ]
    res = subprocess.run(cmd, capture_output=True, text=True)
    return res.returncode == 0


def ensure_deps(verbose: bool = False) -> dict:
    """Idempotent offline install of the harness' own third-party dependencies."""
    status = {}
    DEPS.mkdir(exist_ok=True)
    if str(DEPS) not in sys.path:
        sys.path.append(str(DEPS))  # append: never shadow /venv packages
    try:
        import hypothesis  # noqa: F401
        status["hypothesis"] = "venv"
    except ImportError:
        status["hypothesis"] = "installed" if _pip_install(["hypothesis", "sortedcontainers", "attrs"]) else "FAILED"
    try:
        import jsonschema  # noqa: F401
        status["jsonschema"] = "present"
    except ImportError:
        ok = _pip_install(_DEP_PKGS)
        status["jsonschema"] = "installed" if ok else "FAILED"
    if os.environ.get("VERIF_WANT_ATHERIS"):
        try:
            import atheris  # noqa: F401
            status["atheris"] = "present"
        except ImportError:
            status["atheris"] = "installed" if _pip_install(_OPTIONAL_PKGS) else "unavailable"
    if verbose:
        print("deps:", status)
    return status


def bootstrap() -> None:
    _pin_env()
    if str(VERIF) not in sys.path:
        sys.path.insert(0, str(VERIF))
    if REPO_SRC != "/repo/src":
        # mutation audit only: import gemseo from a scratch copy
        sys.path.insert(0, REPO_SRC)
    ensure_deps()


def assert_gemseo_tree() -> str:
    import gemseo

    path = str(Path(gemseo.__file__).resolve())
    if not path.startswith(REPO_SRC.rstrip("/") + "/"):
        print(f"HARNESS-ERROR: gemseo imported from {path}, expected under {REPO_SRC}")
        sys.exit(2)
    return path


if __name__ == "__main__":
    _pin_env()
    os.environ["VERIF_WANT_ATHERIS"] = "1"
    st = ensure_deps(verbose=True)
    sys.exit(1 if "FAILED" in st.values() else 0)
