"""Coupled systems: JSON payload -> plain-numpy reference model + real gemseo disciplines.

Shared by C06 (MDA fixed point) and C07 (coupled derivatives); written so that the C08 / C09 /
C17 checks can reuse the same payload, model and discipline class.

The payload (``coupled_systems()`` draws it, everything is a JSON primitive)
---------------------------------------------------------------------------

::

    {"q": 0.2,                              # contraction factor of the whole system
     "x": [{"name": "x0", "size": 2}, ...], # design inputs (read by disciplines, produced by nobody); an optional
                                            # "scale": 1e-13 multiplies every block w.r.t. that input (an input
                                            # expressed in a unit that makes all its sensitivities tiny)
     "discs": [                             # one entry per discipline, in LIST order
        {"name": "D0",
         "jac": "dense" | "sparse" | "operator",  # blocks stored by _compute_jacobian: ndarray, csr_array or
                                            # matrix-free gemseo JacobianOperator (matvec / rmatvec only)
         "outputs": [
            {"name": "yb", "size": 2,
             "c":    [1, -2],                       # constant term, real value c/2
             "lin":  {"x0": [[1, 0], [2, -1]],      # integer blocks, shape (size, size of the input)
                      "ya": [[1], [3]]},
             "tanh": {"ya": [[0], [1]]}}            # optional smooth term: block @ tanh(input)
         ]}]}

A discipline entry may carry ``"state": [2, -1]`` (non-zero integers, one per component of its FIRST
output ``w``; only for disciplines that do not read ``w`` themselves): the gemseo discipline is then
written in residual form - ``w`` is a state variable (input and output), an extra output
``r_<w> = diag(state) (G(inputs) - w)`` is its residual, ``io.residual_to_state_variable = {r_w: w}`` and the
discipline solves its own state equations (``state_equations_are_solved = True``: it returns
``w = G(inputs)``, ``r_w = 0`` and the partials ``dr/dw = -diag(state)``, ``dr/du = diag(state) dG/du``).
With ``build_disciplines(..., state_solved=False)`` the discipline leaves its state to the MDA instead
(``state_equations_are_solved = False``, what MDANewtonRaphson / MDAQuasiNewton resolve): it returns
``w`` unchanged (``dw/dw = I``) and ``r_w = diag(state) (G(inputs) - w)`` with its partials.
The mathematical system, hence the reference model, is unchanged.

For an output ``o`` of a discipline::

    o = c/2 + sum_{x inputs}  (L_ox / 2) x + (T_ox / 2) tanh(x)
            + sum_{y inputs}  s (L_oy y + T_oy tanh(y))

where a *y input* is an input that is an output of some discipline of the system (a coupling,
possibly of the discipline itself: self-coupling) and ``s`` is ONE global scale chosen such that

    max over all output rows of  sum_y-inputs (|L| + |T|) row sums  ==  q / s      (s = 1 if no coupling)

Hence the map G: (all outputs) -> (all outputs) obtained by running every discipline once has a
Jacobian of infinity-norm <= q < 1 wherever it is evaluated (|tanh'| <= 1): G is a contraction in
the max norm, the coupled system has exactly one solution v*(x) whatever the coupling graph is,
Jacobi and Gauss-Seidel sweeps converge at rate <= q from anywhere, and
cond_inf(I - dG/dv) <= (1 + q) / (1 - q).

Reference model (no gemseo code involved): :class:`CoupledSystem`

* ``run(i, data)``          outputs of discipline ``i`` from a dict of arrays,
* ``partials(i, data)``     exact partial Jacobians ``{out: {in: 2-D array}}``,
* ``solve(x)``              the exact coupled solution (numpy.linalg.solve for linear systems,
                            dense Newton iterations on the contraction otherwise),
* ``total_derivatives(x)``  d v*/d x  =  (I - dG/dv)^-1 dG/dx  (implicit function theorem),
* ``defect(data)``          max-norm of "re-execute every discipline on data and compare".

Real objects: ``build_disciplines(system, grammar_type)`` returns :class:`HarnessDiscipline`
instances (gemseo ``Discipline`` subclasses) evaluating the very same maps, with an exact
``_compute_jacobian`` (dense ndarray or scipy ``csr_array`` blocks) and run / linearisation
counters.
"""

from __future__ import annotations

import numpy as np
from hypothesis import strategies as st

__all__ = [
    "CoupledSystem",
    "NonFiniteInput",
    "HarnessDiscipline",
    "build_disciplines",
    "coupled_systems",
    "input_values",
    "describe_graph",
]

class NonFiniteInput(ValueError):
    """Raised by a HarnessDiscipline (``reject_non_finite=True``) executed on NaN / infinite inputs.

    Lets a check stop an MDA that keeps iterating on NaN for its whole iteration budget.
    """


X_SCALE = 0.5  # real design-input block = integer block * X_SCALE; constants likewise


# ======================================================================================
# Reference model
# ======================================================================================
class CoupledSystem:
    """Plain-numpy model of a payload (see the module docstring)."""

    def __init__(self, payload: dict):
        self.payload = payload
        self.q = float(payload["q"])
        if not 0.0 <= self.q < 1.0:
            raise ValueError("contraction factor must lie in [0, 1)")
        self.x_names = [v["name"] for v in payload["x"]]
        self.sizes = {v["name"]: int(v["size"]) for v in payload["x"]}
        self.x_scale = {v["name"]: float(v.get("scale", 1.0)) for v in payload["x"]}
        self.disc_names = [d["name"] for d in payload["discs"]]
        self.producer = {}  # output name -> discipline index
        self.out_names = []  # all outputs, discipline after discipline
        for i, d in enumerate(payload["discs"]):
            for o in d["outputs"]:
                if o["name"] in self.sizes:
                    raise ValueError(f"variable {o['name']} defined twice")
                self.sizes[o["name"]] = int(o["size"])
                self.producer[o["name"]] = i
                self.out_names.append(o["name"])
        # global scale of the coupling blocks
        worst = 0.0
        for d in payload["discs"]:
            for o in d["outputs"]:
                rows = np.zeros(o["size"])
                for kind in ("lin", "tanh"):
                    for name, block in o.get(kind, {}).items():
                        if name in self.producer:
                            rows = rows + np.abs(self._block(o, name, block)).sum(axis=1)
                worst = max(worst, float(rows.max()) if rows.size else 0.0)
        self.scale = self.q / worst if worst > 0 else 1.0
        # maps per discipline: list of (out_name, const, [(in_name, factor, L, T or None)]), L and T integer blocks
        self._maps = []
        self.inputs_of = []  # per discipline: ordered input names
        self.outputs_of = []
        self.linear = True
        for d in payload["discs"]:
            outs, in_names = [], []
            for o in d["outputs"]:
                terms = []
                # sorted: the order of the terms (hence the rounding of the sums) must not depend on the
                # order of the dictionary keys, which a replay file (written with sorted keys) does not keep
                names = sorted(set(o.get("lin", {})) | set(o.get("tanh", {})))
                for name in names:
                    if name not in self.sizes:
                        raise ValueError(f"unknown input {name}")
                    f = self.scale if name in self.producer else X_SCALE * self.x_scale[name]
                    lin = o.get("lin", {}).get(name)
                    tnh = o.get("tanh", {}).get(name)
                    # integer blocks and their factor are kept apart: block @ u is exact on the
                    # half-integer grid of the generated values, so that mathematically zero
                    # combinations are exactly zero and not rounding dirt
                    lin = self._block(o, name, lin) if lin is not None else np.zeros((o["size"], self.sizes[name]))
                    if tnh is not None:
                        tnh = self._block(o, name, tnh)
                        if not tnh.any():
                            tnh = None
                    if tnh is not None:
                        self.linear = False
                    terms.append((name, f, lin, tnh))
                    if name not in in_names:
                        in_names.append(name)
                const = np.array(o["c"], dtype=float) * X_SCALE
                if const.shape != (o["size"],):
                    raise ValueError("constant of wrong size")
                outs.append((o["name"], const, terms))
            self._maps.append(outs)
            self.inputs_of.append(in_names)
            self.outputs_of.append([o["name"] for o in d["outputs"]])
        # residual/state form (only changes the gemseo discipline, not the mathematical model)
        self.state_of = {}
        for i, d in enumerate(payload["discs"]):
            if d.get("state"):
                w = d["outputs"][0]["name"]
                diag = np.array(d["state"], dtype=float)
                if diag.shape != (self.sizes[w],) or not diag.all() or w in self.inputs_of[i]:
                    raise ValueError(f"invalid state form for discipline {d['name']}")
                self.state_of[i] = (w, "r_" + w, diag)
        # offsets of the outputs in the stacked vector v
        self.offset, k = {}, 0
        for name in self.out_names:
            self.offset[name] = k
            k += self.sizes[name]
        self.n_v = k
        self.x_offset, k = {}, 0
        for name in self.x_names:
            self.x_offset[name] = k
            k += self.sizes[name]
        self.n_x = k

    def _block(self, o, name, block) -> np.ndarray:
        a = np.array(block, dtype=float)
        if a.shape != (o["size"], self.sizes[name]):
            raise ValueError(f"block d{o['name']}/d{name} has shape {a.shape}")
        return a

    # ----------------------------------------------------------------- discipline maps
    def run(self, i: int, data: dict) -> dict:
        """Outputs of discipline ``i`` evaluated on ``data`` (only its inputs are read)."""
        out = {}
        for name, const, terms in self._maps[i]:
            val = const.copy()
            for in_name, f, lin, tnh in terms:
                u = np.asarray(data[in_name], dtype=float)
                val = val + f * (lin @ u)
                if tnh is not None:
                    val = val + f * (tnh @ np.tanh(u))
            out[name] = val
        return out

    def partials(self, i: int, data: dict) -> dict:
        """Exact partial Jacobians of discipline ``i`` at ``data``: ``{out: {in: array}}``.

        Every (output, input) pair of the discipline is present (zero block when the output
        does not depend on the input).
        """
        jac = {}
        for name, _, terms in self._maps[i]:
            row = {n: np.zeros((self.sizes[name], self.sizes[n])) for n in self.inputs_of[i]}
            for in_name, f, lin, tnh in terms:
                blk = f * lin
                if tnh is not None:
                    u = np.asarray(data[in_name], dtype=float)
                    blk = blk + f * tnh * (1.0 - np.tanh(u) ** 2)[None, :]
                row[in_name] = row[in_name] + blk
            jac[name] = row
        return jac

    # ----------------------------------------------------------------- whole system
    def pack(self, data: dict) -> np.ndarray:
        return np.concatenate([np.asarray(data[n], dtype=float).reshape(-1) for n in self.out_names]) if self.out_names else np.zeros(0)

    def unpack(self, v: np.ndarray) -> dict:
        return {n: v[self.offset[n] : self.offset[n] + self.sizes[n]].copy() for n in self.out_names}

    def sweep(self, data: dict) -> dict:
        """One Jacobi sweep: every discipline executed on the same ``data``."""
        new = {}
        for i in range(len(self._maps)):
            new.update(self.run(i, data))
        return new

    def system_jacobians(self, data: dict):
        """Dense (dG/dv, dG/dx) at ``data`` (rows: stacked outputs)."""
        jv = np.zeros((self.n_v, self.n_v))
        jx = np.zeros((self.n_v, self.n_x))
        for i in range(len(self._maps)):
            for out, row in self.partials(i, data).items():
                r = slice(self.offset[out], self.offset[out] + self.sizes[out])
                for in_name, blk in row.items():
                    if in_name in self.producer:
                        c = slice(self.offset[in_name], self.offset[in_name] + self.sizes[in_name])
                        jv[r, c] += blk
                    else:
                        c = slice(self.x_offset[in_name], self.x_offset[in_name] + self.sizes[in_name])
                        jx[r, c] += blk
        return jv, jx

    def solve(self, x: dict) -> dict:
        """The unique solution of the coupled system for the design inputs ``x``."""
        data = {n: np.asarray(x[n], dtype=float) for n in self.x_names}
        data.update({n: np.zeros(self.sizes[n]) for n in self.out_names})
        v = self.pack(data)
        for _ in range(60):
            g = self.pack(self.sweep(data))
            jv, _ = self.system_jacobians(data)
            step = np.linalg.solve(np.eye(self.n_v) - jv, g - v)
            v = v + step
            data.update(self.unpack(v))
            if np.max(np.abs(step), initial=0.0) <= 4e-16 * (1.0 + np.max(np.abs(v), initial=0.0)):
                break
        # one plain contraction sweep does not hurt and removes the last Newton rounding
        return {n: data[n] for n in self.out_names}

    def total_derivatives(self, x: dict, solution: dict | None = None) -> dict:
        """``{output: {x name: d output / d x}}`` at the coupled solution (implicit function theorem)."""
        sol = solution if solution is not None else self.solve(x)
        data = {n: np.asarray(x[n], dtype=float) for n in self.x_names}
        data.update(sol)
        jv, jx = self.system_jacobians(data)
        dv = np.linalg.solve(np.eye(self.n_v) - jv, jx)
        return {
            o: {
                xn: dv[self.offset[o] : self.offset[o] + self.sizes[o], self.x_offset[xn] : self.x_offset[xn] + self.sizes[xn]]
                for xn in self.x_names
            }
            for o in self.out_names
        }

    def defect(self, data: dict, names=None) -> tuple[float, str]:
        """Largest |re-executed output - data output| over all disciplines (outputs ``names`` only if given), and where."""
        worst, where = 0.0, ""
        for i in range(len(self._maps)):
            for name, val in self.run(i, data).items():
                if names is not None and name not in names:
                    continue
                got = np.asarray(data[name], dtype=float).reshape(-1)
                d = float(np.max(np.abs(val - got), initial=0.0)) if got.shape == val.shape else float("inf")
                if not d <= worst:  # also catches NaN
                    worst, where = d, f"{self.disc_names[i]}.{name}"
        return worst, where

    # ----------------------------------------------------------------- structure
    def graph(self) -> list[set[int]]:
        """``succ[i]`` = disciplines reading an output of discipline ``i`` (self loops included)."""
        succ = [set() for _ in self._maps]
        for j, names in enumerate(self.inputs_of):
            for n in names:
                if n in self.producer:
                    succ[self.producer[n]].add(j)
        return succ

    def sccs(self) -> list[list[int]]:
        """Strongly connected components of the coupling graph (Tarjan), any order."""
        succ = self.graph()
        n = len(succ)
        index, low, on, stack, out, counter = {}, {}, set(), [], [], [0]

        def visit(v):
            index[v] = low[v] = counter[0]
            counter[0] += 1
            stack.append(v)
            on.add(v)
            for w in sorted(succ[v]):
                if w not in index:
                    visit(w)
                    low[v] = min(low[v], low[w])
                elif w in on:
                    low[v] = min(low[v], index[w])
            if low[v] == index[v]:
                comp = []
                while True:
                    w = stack.pop()
                    on.discard(w)
                    comp.append(w)
                    if w == v:
                        break
                out.append(sorted(comp))

        for v in range(n):
            if v not in index:
                visit(v)
        return out

    def couplings(self) -> list[str]:
        """Outputs read by some discipline."""
        return sorted({n for names in self.inputs_of for n in names if n in self.producer})


def describe_graph(model: CoupledSystem) -> dict:
    """Structural classes of a system (used for the class histograms)."""
    succ = model.graph()
    comps = model.sccs()
    big = [c for c in comps if len(c) > 1]
    self_coupled = [i for i in range(len(succ)) if i in succ[i]]
    in_cycle = {i for c in big for i in c} | set(self_coupled)
    weak = [i for i in range(len(succ)) if i not in in_cycle]
    sizes_in_cycle = {model.sizes[n] for c in big for i in c for n in model.outputs_of[i] if n in model.couplings()}
    return {
        "n_disc": len(succ),
        "n_scc_ge2": len(big),
        "n_self_coupled": len(self_coupled),
        "n_weak": len(weak),
        "all_strong": not weak,
        "unequal_sizes_in_cycle": len(sizes_in_cycle) > 1,
        "linear": model.linear,
        "largest_scc": max((len(c) for c in comps), default=0),
    }


# ======================================================================================
# Real gemseo disciplines
# ======================================================================================
def _discipline_base():
    from gemseo.core.discipline import Discipline

    return Discipline


_CLASS_CACHE: dict = {}


def _harness_class(grammar_type: str):
    """HarnessDiscipline subclass bound to a grammar type (class attribute of Discipline)."""
    if grammar_type in _CLASS_CACHE:
        return _CLASS_CACHE[grammar_type]
    Discipline = _discipline_base()  # noqa: N806
    from scipy.sparse import csr_array

    def _as_operator(block: np.ndarray):
        """The block as a matrix-free JacobianOperator (only products with the block / its transpose)."""
        from gemseo.core.derivatives.jacobian_operator import JacobianOperator

        operator = JacobianOperator(dtype=block.dtype, shape=block.shape)
        operator._matvec = block.dot
        operator._rmatvec = block.T.dot
        return operator

    class HarnessDiscipline(Discipline):
        """A gemseo discipline evaluating discipline ``index`` of a :class:`CoupledSystem`.

        ``n_run`` / ``n_lin`` count the calls of ``_run`` / ``_compute_jacobian``;
        ``run_log`` (when enabled with ``keep_log=True``) keeps the input data of every run.
        """

        default_grammar_type = Discipline.GrammarType(grammar_type)

        def __init__(self, model: CoupledSystem, index: int, defaults: dict, jac_format: str = "dense", keep_log: bool = False,
                     reject_non_finite: bool = False, state_solved: bool = True, coupling_jacobian_factor: float = 1.0):
            super().__init__(name=model.disc_names[index])
            self.reject_non_finite = reject_non_finite
            self.model = model
            self.index = index
            self.jac_format = jac_format
            self.n_run = 0
            self.n_lin = 0
            self.run_log = [] if keep_log else None
            in_names = list(model.inputs_of[index])
            out_sizes = {n: model.sizes[n] for n in model.outputs_of[index]}
            self.state = model.state_of.get(index)
            if self.state is not None:
                w, r, _ = self.state
                in_names.append(w)
                out_sizes[r] = model.sizes[w]
                self.io.residual_to_state_variable = {r: w}
                self.io.state_equations_are_solved = state_solved
            self.state_solved = state_solved
            # != 1: "simplified" analytic Jacobian (partials w.r.t. the coupling inputs multiplied by the factor): Newton-type
            # MDAs then converge linearly instead of quadratically; never use it where the derivatives are the subject
            self.coupling_jacobian_factor = coupling_jacobian_factor
            self.io.input_grammar.update_from_data({n: np.zeros(model.sizes[n]) for n in in_names})
            self.io.output_grammar.update_from_data({n: np.zeros(s) for n, s in out_sizes.items()})
            self.io.input_grammar.defaults.update({n: np.array(defaults[n], dtype=float) for n in in_names})

        def _run(self, input_data):
            self.n_run += 1
            if self.reject_non_finite:
                for k in self.model.inputs_of[self.index]:
                    if not np.all(np.isfinite(input_data[k])):
                        raise NonFiniteInput(f"discipline {self.name} executed with {k} = {input_data[k]!r}")
            if self.run_log is not None:
                self.run_log.append({k: np.array(v, dtype=float) for k, v in input_data.items() if k in self.model.inputs_of[self.index]})
            out = self.model.run(self.index, input_data)
            if self.state is not None:  # the discipline solves its own state equation: r = M (G(u) - w) = 0
                w, r, diag = self.state
                if self.state_solved:
                    out[r] = diag * (out[w] - out[w])
                else:  # the MDA resolves the state: w is left as it is, the residual is returned
                    w_in = np.array(input_data[w], dtype=float)
                    out[r] = diag * (out[w] - w_in)
                    out[w] = w_in
            return out

        def _compute_jacobian(self, input_names=(), output_names=()):
            self.n_lin += 1
            jac = self.model.partials(self.index, self.io.data)
            if self.coupling_jacobian_factor != 1.0:
                for row in jac.values():
                    for name in row:
                        if name in self.model.producer:
                            row[name] = row[name] * self.coupling_jacobian_factor
            if self.state is not None:
                w, r, diag = self.state
                size = self.model.sizes[w]
                for row in jac.values():
                    row[w] = np.zeros((next(iter(row.values())).shape[0] if row else size, size))
                for o in jac:
                    jac[o][w] = np.zeros((self.model.sizes[o], size))
                jac[r] = {i: diag[:, None] * b for i, b in jac[w].items()}
                jac[r][w] = -np.diag(diag)
                if not self.state_solved:  # w is returned as it was received: dw/dw = I, dw/d(other inputs) = 0
                    jac[w] = {i: np.zeros_like(b) for i, b in jac[w].items()}
                    jac[w][w] = np.eye(size)
            if self.jac_format == "sparse":
                jac = {o: {i: csr_array(b) for i, b in row.items()} for o, row in jac.items()}
            elif self.jac_format == "operator":
                jac = {o: {i: _as_operator(b) for i, b in row.items()} for o, row in jac.items()}
            self.jac = jac

    HarnessDiscipline.__name__ = f"HarnessDiscipline_{grammar_type}"
    _CLASS_CACHE[grammar_type] = HarnessDiscipline
    return HarnessDiscipline


def HarnessDiscipline(model, index, defaults, jac_format="dense", grammar_type="SimpleGrammar", keep_log=False, reject_non_finite=False,  # noqa: N802
                      state_solved=True, coupling_jacobian_factor=1.0):
    """Create the gemseo discipline of ``model.payload['discs'][index]``."""
    return _harness_class(grammar_type)(model, index, defaults, jac_format, keep_log, reject_non_finite, state_solved, coupling_jacobian_factor)


def build_disciplines(model: CoupledSystem, defaults: dict, grammar_type: str = "SimpleGrammar", keep_log: bool = False,
                      reject_non_finite: bool = False, state_solved: bool = True, coupling_jacobian_factor: float = 1.0) -> list:
    """One gemseo discipline per payload discipline, in payload (list) order.

    ``defaults`` gives the default value of every variable (design inputs and coupling start
    values): ``{name: list of floats}``.
    """
    return [
        HarnessDiscipline(model, i, defaults, d.get("jac", "dense"), grammar_type, keep_log, reject_non_finite, state_solved,
                          coupling_jacobian_factor)
        for i, d in enumerate(model.payload["discs"])
    ]


# ======================================================================================
# Hypothesis strategies
# ======================================================================================
_COEF = st.integers(-3, 3)
_NAMES = ["ya", "yb", "yc", "yd", "ye", "yf", "yg", "yh"]


def _block(draw, rows: int, cols: int, nonzero: bool = True):
    m = [[draw(_COEF) for _ in range(cols)] for _ in range(rows)]
    if nonzero and not any(v for r in m for v in r):
        m[draw(st.integers(0, rows - 1))][draw(st.integers(0, cols - 1))] = draw(st.sampled_from([-2, -1, 1, 2, 3]))
    return m


@st.composite
def coupled_systems(
    draw,
    min_disc: int = 2,
    max_disc: int = 5,
    all_strong: bool | None = None,
    nonlinear: bool | None = None,
    extra_outputs: bool = True,
    state_form: bool = False,
    operator_jacobians: bool = False,
    input_scales: bool = False,
    acyclic: bool = False,
    more_self_coupled: bool = False,
    two_cycles: bool = False,
    tail: bool = False,
    q_range: tuple[float, float] = (0.05, 0.3),
    max_size: int = 3,
):
    """Draw a system payload (see the module docstring).

    Construction (never rejection): the disciplines are split into groups; a group of >= 2
    disciplines is a ring (guaranteed cycle) with extra random intra-group edges, groups are
    wired forward only (so groups are exactly the strongly connected components), a group of one
    is a weakly coupled pre/post discipline or a self-coupled one.  The list order of the
    disciplines is a drawn permutation, the variable names are drawn so that the alphabetical
    order (used by gemseo to order the resolved variables) differs from the list order.

    Args:
        all_strong: True = one single ring (what MDANewtonRaphson accepts); False = at least one
            weakly coupled discipline; None = drawn.
        nonlinear: whether tanh terms are present (None = drawn, 1/3 of the systems).
        extra_outputs: allow a second, non-coupling output on some disciplines.
        state_form: allow disciplines written in residual / state form (see the module docstring).
        operator_jacobians: allow disciplines whose partial Jacobians are matrix-free JacobianOperator's.
        input_scales: allow design inputs whose whole effect is scaled by 1e-10 or 1e-13 (badly scaled unit).
        acyclic: feed-forward system: weakly coupled disciplines only, no cycle, no self-coupling.
        more_self_coupled: self-coupled disciplines one time in two instead of one in four / six.
        tail: 4-5 disciplines, a ring of two followed by a chain of 2-3 weakly coupled disciplines, each reading its
            predecessor (outputs that lag several sweeps behind the cycle in Jacobi-like executions).
        two_cycles: 4-5 disciplines, two rings of two, the second fed by the first (two inner MDAs at different
            levels of an MDAChain), plus possibly a weakly coupled fifth discipline.
    """
    n = draw(st.integers(min_disc, max_disc)) if not (two_cycles or tail) else draw(st.integers(4, 5))
    if all_strong is None:
        all_strong = draw(st.integers(0, 2)) == 0
    if nonlinear is None:
        nonlinear = draw(st.integers(0, 2)) == 0
    # groups: list of lists of discipline ids 0..n-1 (ids are positions in the topological layout)
    if tail:
        all_strong = False
        groups = [[0, 1]] + [[i] for i in range(2, n)]
    elif two_cycles:
        all_strong = False
        groups = [[0, 1], [2, 3]] + ([[4]] if n == 5 else [])
    elif acyclic:
        all_strong = False
        groups = [[i] for i in range(n)]
    elif all_strong:
        groups = [list(range(n))]
    else:
        groups, k = [], 0
        while k < n:
            g = draw(st.integers(1, min(3, n - k)))
            groups.append(list(range(k, k + g)))
            k += g
        if all(len(g) > 1 for g in groups):  # make sure there is a weak discipline
            g = groups.pop()
            groups += [g[:-1], g[-1:]] if len(g) > 1 else [g]
        if all(len(g) == 1 for g in groups) and n >= 2 and draw(st.booleans()):
            groups = [[0, 1]] + [[i] for i in range(2, n)]  # at least one cycle most of the time
    names = draw(st.permutations(_NAMES[: max(n, 4)]))[:n]
    n_x = draw(st.integers(1, 3))
    xs = [{"name": f"x{k}", "size": draw(st.integers(1, 2))} for k in range(n_x)]
    if input_scales:
        for v in xs:
            scale = draw(st.sampled_from([1.0, 1.0, 1.0, 1e-10, 1e-13]))
            if scale != 1.0:
                v["scale"] = scale
    sizes = [draw(st.integers(1, max_size)) for _ in range(n)]
    group_of = {i: gi for gi, g in enumerate(groups) for i in g}
    reads = {i: set() for i in range(n)}  # coupling inputs (discipline ids)
    for g in groups:
        if len(g) > 1:
            for pos, i in enumerate(g):
                reads[i].add(g[pos - 1])  # ring
            for i in g:
                for j in g:
                    if i != j and draw(st.integers(0, 3)) == 0:
                        reads[i].add(j)
        elif not acyclic and not tail and draw(st.integers(0, 3)) <= (1 if more_self_coupled else 0):
            reads[g[0]].add(g[0])  # self-coupled singleton
    for i in range(n):
        for j in range(n):
            if group_of[j] < group_of[i] and draw(st.integers(0, 2)) > 0:
                reads[i].add(j)
    if tail:
        for i in range(2, n):
            reads[i].add(i - 1)  # the chain
    if two_cycles and not (reads[2] | reads[3]) & {0, 1}:
        reads[2].add(1)  # the second ring depends on the first one
    if not any(reads.values()):
        reads[n - 1].add(0)  # a coupled system has at least one coupling variable
    if all_strong and n >= 2 and draw(st.integers(0, 5)) <= (2 if more_self_coupled else 0):
        i = draw(st.integers(0, n - 1))
        reads[i].add(i)  # self-coupling inside a ring
    discs = []
    for i in range(n):
        x_used = [v for v in xs if draw(st.booleans())]
        if not x_used and not reads[i]:
            x_used = [xs[0]]
        lin, tnh = {}, {}
        for v in x_used:
            lin[v["name"]] = _block(draw, sizes[i], v["size"])
            if nonlinear and draw(st.integers(0, 3)) == 0:
                tnh[v["name"]] = _block(draw, sizes[i], v["size"])
        for j in sorted(reads[i]):
            kind = draw(st.integers(0, 2)) if nonlinear else 0
            if kind in (0, 1):
                lin[names[j]] = _block(draw, sizes[i], sizes[j])
            if kind in (1, 2):
                tnh[names[j]] = _block(draw, sizes[i], sizes[j])
        out = {"name": names[i], "size": sizes[i], "c": [draw(_COEF) for _ in range(sizes[i])], "lin": lin}
        if tnh:
            out["tanh"] = tnh
        outputs = [out]
        if extra_outputs and draw(st.integers(0, 2)) == 0:
            sz = draw(st.integers(1, 2))
            src = list(lin) + [k for k in tnh if k not in lin]
            glin = {}
            all_sizes = {v["name"]: v["size"] for v in xs} | {names[j]: sizes[j] for j in range(n)}
            for name in src:
                if draw(st.booleans()) or not glin:
                    glin[name] = _block(draw, sz, all_sizes[name])
            outputs.append({"name": "g" + names[i][1:], "size": sz, "c": [draw(_COEF) for _ in range(sz)], "lin": glin})
        formats = ["dense", "dense", "sparse"] if not operator_jacobians else ["dense", "sparse", "sparse", "operator", "operator"]
        disc = {"name": f"D{i}", "jac": draw(st.sampled_from(formats)), "outputs": outputs}
        if state_form and i not in reads[i] and draw(st.integers(0, 2)) == 0:
            disc["state"] = [draw(st.sampled_from([1, 2, -1, 3])) for _ in range(sizes[i])]
        discs.append(disc)
    order = draw(st.permutations(list(range(n))))
    q = draw(st.sampled_from([0.05, 0.1, 0.2, 0.3]))
    q = min(max(q, q_range[0]), q_range[1])
    return {"q": q, "x": xs, "discs": [discs[i] for i in order]}


@st.composite
def input_values(draw, system: dict, with_start: bool = True):
    """Values ``{name: [floats]}`` for the design inputs and (optionally) coupling start values."""
    half = st.integers(-4, 4).map(lambda k: k * 0.5)
    vals = {v["name"]: [draw(half) for _ in range(v["size"])] for v in system["x"]}
    if with_start:
        for d in system["discs"]:
            for o in d["outputs"]:
                vals[o["name"]] = [draw(half) for _ in range(o["size"])]
    return vals
