"""Generators and harness objects for driver-level checks (C03).

    optimizer_capabilities()   {name: capabilities read from ALGORITHM_INFOS of the factory's libraries}
    doe_capabilities()         idem for the DOE factory
    opt_cases(caps, names)     strategy -> payload of one optimisation run (+ optional second execution)
    doe_cases(caps, names)     strategy -> payload of one DOE run (+ optional second execution)
    HarnessProblem(spec)       builds the gemseo OptimizationProblem of a payload around counting callables

The problems reuse vlib.gen.problems (design-space specs, dyadic polynomial functions with call logs).
Every callable given to gemseo is wrapped by ``Counted``: it records the physical point of each call,
can return NaN / raise ValueError on a drawn rule (k-th distinct point, half-space) and raises
``Runaway`` when the number of calls exceeds a hard cap (a driver that nothing stops must not hang
the harness: the cap is far above every budget that is generated).
"""

from __future__ import annotations

import numpy as np
from hypothesis import strategies as st

from vlib.gen.problems import FLOAT_LB
from vlib.gen.problems import FLOAT_WIDTH
from vlib.gen.problems import INT_LB
from vlib.gen.problems import INT_WIDTH
from vlib.gen.problems import PolyFunction
from vlib.gen.problems import SpaceModel
from vlib.gen.problems import build_design_space
from vlib.gen.problems import function_specs
from vlib.gen.problems import space_dimension

# --------------------------------------------------------------------------- capabilities
COMPOSITES = ("MultiStart", "MNBI", "Augmented_Lagrangian_order_0", "Augmented_Lagrangian_order_1")
# solvers that read the coefficients of MDOLinearFunction objects and never call the functions while solving
COEFFICIENT_SOLVERS = ("ScipyLinprog", "ScipyMILP")
GLOBAL_LIBRARIES = ("ScipyGlobalOpt",)
OPTIONAL_PACKAGES = {"pymoo": "gemseo-pymoo", "pdfo": "gemseo-pdfo", "pSeven": "gemseo-pseven", "da": "gemseo-pseven"}


def optimizer_capabilities() -> dict:
    """Capabilities of every algorithm of OptimizationLibraryFactory, from ALGORITHM_INFOS."""
    from gemseo.algos.opt.factory import OptimizationLibraryFactory

    factory = OptimizationLibraryFactory()
    out = {}
    for name in factory.algorithms:
        lib = factory.create(name)
        info = lib.ALGORITHM_INFOS[name]
        library = type(lib).__name__
        out[name] = {
            "library": library,
            "eq": bool(info.handle_equality_constraints),
            "ineq": bool(info.handle_inequality_constraints),
            "int": bool(info.handle_integer_variables),
            "linear_only": bool(info.for_linear_problems) or library in COEFFICIENT_SOLVERS,
            "grad": bool(info.require_gradient),
            "multi": bool(info.handle_multiobjective),
            "kkt": "kkt_tol_abs" in info.Settings.model_fields,
            "composite": name in COMPOSITES,
            "global": library in GLOBAL_LIBRARIES,
        }
    return out


def doe_capabilities() -> dict:
    from gemseo.algos.doe.factory import DOELibraryFactory

    factory = DOELibraryFactory()
    out = {}
    for name in factory.algorithms:
        lib = factory.create(name)
        info = lib.ALGORITHM_INFOS[name]
        fields = set(info.Settings.model_fields)
        out[name] = {
            "library": type(lib).__name__,
            "min_dim": int(info.minimum_dimension),
            "int": bool(info.handle_integer_variables),
            "has_n_samples": "n_samples" in fields,
            "seed_key": "seed" if "seed" in fields else ("random_state" if "random_state" in fields else None),
        }
    return out


def absent_optional_packages() -> list:
    import importlib.util

    return sorted(f"{pkg} ({plugin}) not installed" for pkg, plugin in OPTIONAL_PACKAGES.items() if importlib.util.find_spec(pkg) is None)


# --------------------------------------------------------------------------- harness callables
class NonFiniteInput(Exception):
    """Raised by a counted callable (when asked to) for a design vector holding NaN or inf, as a simulation code would."""


class Runaway(Exception):
    """Raised by a counted callable when the hard cap of calls is exceeded (nothing stopped the driver)."""


def point_key(x) -> bytes:
    """Bytes of the physical point (real part, float64, -0.0 merged with 0.0)."""
    return (np.asarray(x).real.astype(float) + 0.0).tobytes()


class Counted:
    """The user's function of a harness problem: a PolyFunction plus call records, NaN / failure rules and a cap."""

    def __init__(self, poly: PolyFunction, space: SpaceModel, cap: int, state: dict):
        self.poly = poly
        self.space = space
        self.cap = cap
        self.state = state  # shared by the functions of a problem: {"runaway": bool, "nan_returned": int, "raised": int}
        self.calls: list[tuple[str, bytes, bool]] = []  # (kind, key, is_complex_probe)
        self.order: dict[bytes, int] = {}  # distinct real points in order of first call (functions and Jacobians)
        self.nan_rule = None
        self.raise_rule = None
        self.jac_nan_rule = None  # the Jacobian is NaN there, the value stays finite (e.g. x/|x| at 0)
        self.raise_on_nonfinite = False  # raise NonFiniteInput when called with a NaN / inf design vector
        self.raised_keys: set[bytes] = set()
        self.nan_keys: set[bytes] = set()
        self.jac_nan_keys: set[bytes] = set()

    # ----- rules
    def hits(self, rule, x, key) -> bool:
        if rule is None:
            return False
        if rule["kind"] == "kth":
            return self.order[key] == int(rule["k"])
        i = int(rule["comp"]) % self.space.dim
        lb, ub = self.space.lb[i], self.space.ub[i]
        t = lb + (int(rule["level"]) / 8.0) * (ub - lb)
        xi = float(np.asarray(x).real[i])
        return (xi - t) * (1 if rule["side"] > 0 else -1) > 0

    def _record(self, kind, x):
        x = np.asarray(x)
        key = point_key(x)
        is_complex = bool(np.iscomplexobj(x) and np.any(x.imag != 0))
        self.calls.append((kind, key, is_complex))
        if not is_complex and key not in self.order:
            self.order[key] = len(self.order) + 1
        if not np.all(np.isfinite(x.real)):
            self.state["nonfinite_input_calls"] = self.state.get("nonfinite_input_calls", 0) + 1
            if self.raise_on_nonfinite:
                raise NonFiniteInput(f"{self.poly.name} called with {x!r}")
        if len(self.calls) > self.cap:
            self.state["runaway"] = True
            raise Runaway(f"{self.poly.name}: more than {self.cap} calls")
        return key, is_complex

    def func(self, x):
        key, is_complex = self._record("f", x)
        if not is_complex and self.hits(self.raise_rule, x, key):
            self.state["raised"] += 1
            self.raised_keys.add(key)
            raise ValueError("harness: the function refuses this point")
        value = self.poly.func(x)
        if not is_complex and self.hits(self.nan_rule, x, key):
            self.state["nan_returned"] += 1
            self.nan_keys.add(key)
            return value * float("nan")
        return value

    def jac(self, x):
        key, is_complex = self._record("j", x)
        jacobian = self.poly.jac(x)
        if not is_complex and self.hits(self.jac_nan_rule, x, key):
            self.state["nan_returned"] += 1
            self.jac_nan_keys.add(key)
            return jacobian * float("nan")
        return jacobian

    # ----- reading the records
    def distinct_points(self, start: int = 0) -> dict:
        """{key: point} of the real points called from record index ``start`` on (complex-step probes left out)."""
        out = {}
        for (_, key, is_complex) in self.calls[start:]:
            if not is_complex and key not in out:
                out[key] = np.frombuffer(key, dtype=float)
        return out

    def n_calls_at(self, key: bytes, kind: str = "f", start: int = 0) -> int:
        return sum(1 for kd, k, c in self.calls[start:] if kd == kind and k == key and not c)


def _capped_linear_function(counted: Counted):
    from gemseo.core.mdo_functions.mdo_linear_function import MDOLinearFunction

    poly = counted.poly

    class CountedLinearFunction(MDOLinearFunction):
        """MDOLinearFunction whose own evaluations are recorded (the normalised copy gemseo may build is not)."""

        def _func_to_wrap(self, x_vect):
            counted._record("f", x_vect)
            return super()._func_to_wrap(x_vect)

        def _jac_to_wrap(self, x_vect):
            counted._record("j", x_vect)
            return super()._jac_to_wrap(x_vect)

    value_at_zero = poly.c.copy() if poly.dim > 1 else float(poly.c[0])
    return CountedLinearFunction(poly.B.copy(), poly.name, value_at_zero=value_at_zero)


# --------------------------------------------------------------------------- problem
class HarnessProblem:
    """The gemseo OptimizationProblem of a problem spec, with counting callables and a numpy reference.

    spec = {"space", "x0" (point spec or None), "obj", "cons": [{"type", "spec"}], "obs": [spec] (optional observables),
            "stop_if_nan" (optional, False = NaN goes to the algorithm), "maximize", "linear",
            "feasible_x0", "nan": rule|None, "fail": rule|None, "diff"}
    optional "jac_nan": rule (the Jacobian of that function is NaN there, its value finite)
    rule = {"fn": index, "kind": "kth", "k": int} | {"fn": index, "kind": "half", "comp", "level", "side"}
    """

    def __init__(self, spec, cap: int = 4000):
        from gemseo.algos.optimization_problem import OptimizationProblem
        from gemseo.core.mdo_functions.mdo_function import MDOFunction

        self.spec = spec
        self.space = SpaceModel(spec["space"])
        n_in = self.space.dim
        self.state = {"runaway": False, "nan_returned": 0, "raised": 0}
        self.normalized = False  # set by the caller when the drivers run with normalize_design_space=True
        self.design_space = build_design_space(spec["space"])
        self.x0 = None
        if spec.get("x0") is not None:
            _, self.x0 = self.space.realise(spec["x0"], allow_frac=False)
            self.design_space.set_current_value(self.x0.astype(int) if self.space.common_dtype_kind() == "i" else self.x0)

        obs_specs = [dict(o) for o in spec.get("obs") or []]
        f_specs = [dict(spec["obj"])] + [dict(c["spec"]) for c in spec["cons"]]
        if spec.get("feasible_x0") and self.x0 is not None:
            # shift the constants so that every constraint holds at x0 with a margin (g(x0) = -0.5, h(x0) = 0)
            for con, fs in zip(spec["cons"], f_specs[1:]):
                base = PolyFunction(fs, n_in)
                v = base.value(self.x0)
                target = 0.0 if con["type"] == "eq" else -0.5
                fs["c"] = [float(c - vk + target) for c, vk in zip(fs["c"], v)]
        self.polys = [PolyFunction(fs, n_in) for fs in [*f_specs, *obs_specs]]
        self.counted = [Counted(p, self.space, cap, self.state) for p in self.polys]
        for key, attr in (("nan", "nan_rule"), ("fail", "raise_rule"), ("jac_nan", "jac_nan_rule")):
            rule = spec.get(key)
            if rule is not None:
                setattr(self.counted[int(rule["fn"]) % len(self.counted)], attr, rule)

        problem = OptimizationProblem(self.design_space)
        functions = []
        for counted in self.counted:
            if counted.poly.is_mdo_linear:
                functions.append(_capped_linear_function(counted))
            else:
                functions.append(MDOFunction(counted.func, counted.poly.name, jac=counted.jac, dim=counted.poly.dim))
        problem.objective = functions[0]
        for con, fn in zip(spec["cons"], functions[1:]):
            problem.add_constraint(fn, constraint_type=con["type"])
        for fn in functions[1 + len(spec["cons"]):]:
            problem.add_observable(fn)  # also a new-iteration observable (default)
        if spec.get("stop_if_nan") is False:
            problem.stop_if_nan = False
        if spec.get("nonfinite_raises"):
            for counted in self.counted:
                counted.raise_on_nonfinite = True
        if spec.get("maximize"):
            problem.minimize_objective = False
        diff = spec.get("diff", "user")
        if diff != "user":
            problem.differentiation_method = diff
        self.problem = problem
        self.obj_name = problem.objective.name  # standardised name ("-f" when maximising)
        self.con_names = [c.name for c in problem.constraints]
        self.obs_names = [o.name for o in problem.observables]

    # ----- records
    def mark(self) -> list:
        """Current length of the call records (start of an execution)."""
        return [len(c.calls) for c in self.counted]

    def distinct_points(self, marks=None) -> dict:
        """Distinct points at which the user's functions were called by a driver.

        MDOLinearFunction.normalize evaluates the user's linear function once at the lower bounds (0 where a
        component is not normalised) when the problem is preprocessed for normalised inputs (``self.normalized``, set
        by the caller): that point is not a driver evaluation.
        """
        shift_key = point_key(np.where(self.space.norm_mask, self.space.lb, 0.0))
        out = {}
        for i, counted in enumerate(self.counted):
            pts = counted.distinct_points(0 if marks is None else marks[i])
            if counted.poly.is_mdo_linear and self.normalized:
                pts.pop(shift_key, None)
            out.update(pts)
        return out

    def filled_keys(self) -> set:
        """Keys (bytes) of the database entries that hold at least one output (an output-less entry is not an evaluated point)."""
        return {point_key(k.wrapped_array) for k, v in self.problem.database.items() if v}

    def n_filled(self) -> int:
        """Number of database entries holding at least one output (keys of different dtypes at one point count apart)."""
        return sum(1 for v in self.problem.database.values() if v)

    def db_keys(self) -> list:
        return [np.asarray(k.wrapped_array) for k in self.problem.database]


def near_one_component(p, q, scale) -> bool:
    """p differs from q in exactly one component, by at most 1e-5 * scale of that component (an FD probe of q)."""
    d = np.abs(p - q)
    nz = np.flatnonzero(d)
    return nz.size == 1 and d[nz[0]] <= 1e-5 * scale[nz[0]]


# --------------------------------------------------------------------------- strategies: spaces and functions
@st.composite
def bounded_spaces(draw, max_dim: int = 4, min_dim: int = 1, allow_integer: bool = False, all_integer_ok: bool = True):
    """A design space (problems.py spec format) whose components all have finite bounds lb < ub and a current value."""
    dim = draw(st.integers(min_dim, max_dim))
    sizes = []
    left = dim
    while left > 0:
        size = draw(st.integers(1, min(left, 3)))
        sizes.append(size)
        left -= size
    names = ["x", "y", "z", "n"][: len(sizes)]
    kinds = [allow_integer and draw(st.booleans()) for _ in sizes]
    if allow_integer and not any(kinds):
        kinds[-1] = True  # asked for integer variables: at least one
    if not all_integer_ok and all(kinds):
        kinds[0] = False
    variables = []
    for name, size, is_int in zip(names, sizes, kinds):
        comps = []
        for _ in range(size):
            if is_int:
                lb = draw(st.sampled_from(INT_LB))
                ub = lb + draw(st.sampled_from(INT_WIDTH))
            else:
                lb = draw(st.sampled_from(FLOAT_LB))
                ub = lb + draw(st.sampled_from(FLOAT_WIDTH))
            comps.append([lb, ub])
        value = [[draw(st.integers(0, 8)), 0] for _ in range(size)]
        variables.append({"name": name, "type": "integer" if is_int else "float", "comps": comps, "value": value})
    return {"vars": variables, "int_norm": False}


def _scalarise(fs, constant: bool = False):
    """Objective specs are scalar; a constant objective has no linear or quadratic term."""
    fs = dict(fs)
    if constant:
        fs["B"] = [[0.0] * len(row) for row in fs["B"]]
        fs["A"] = []
    fs["jac"] = "dense"
    return fs


def _rule(draw, n_functions: int, max_k: int, half_only: bool = False):
    if not half_only and draw(st.booleans()):
        return {"fn": draw(st.integers(0, n_functions - 1)), "kind": "kth", "k": draw(st.integers(1, max_k))}
    return {"fn": draw(st.integers(0, n_functions - 1)), "kind": "half", "comp": draw(st.integers(0, 3)),
            "level": draw(st.integers(1, 7)), "side": draw(st.sampled_from([-1, 1]))}


# preconditions of the wrapped libraries that ALGORITHM_INFOS does not declare
MIN_DIMENSION = {"NLOPT_NEWUOA": 2}  # NLopt: "dimension 1 must be >= 2"
# NLopt's bound-constrained NEWUOA spends 30-90 s inside its own C code (no Python callback, so no watchdog can cut it)
# when GEMSEO forces a stop once the initial interpolation set (2*dim+1 points) is nearly or fully built, with all NLopt
# tolerances set to 0 by the wrapper (measured: dim 2 max_iter 4, 5, 21; dim 3 max_iter 5, 6, 21; dim 4 max_iter 7);
# interpolation points clipped onto recorded points shift the threshold, so only max_iter 1 and 2 are generated for it
SLOW_AFTER_INITIALISATION = ("NLOPT_NEWUOA",)

SUB_ALGOS_GRADIENT = ["SLSQP", "L-BFGS-B", "NLOPT_SLSQP"]
SUB_ALGOS_ANY = ["SLSQP", "L-BFGS-B", "NLOPT_COBYLA", "NELDER-MEAD"]


@st.composite
def opt_cases(draw, caps: dict, names: list, second_names: list | None = None):
    """One optimisation run: algorithm drawn first, problem built inside its declared capabilities."""
    algo = draw(st.sampled_from(names))
    cap = caps[algo]
    linear = cap["linear_only"] or draw(st.integers(0, 7)) == 0
    multi = algo == "MNBI"
    stops = ["budget"] * 6 + ["ftol", "xtol", "time", "nan", "nan", "nan_grad", "nan_grad", "kkt"]
    if cap["library"] == "ScipyOpt" and cap["grad"]:
        stops += ["nan_grad"] * 4  # value-first algorithms: the ones that hand a NaN design vector to the objective first
    stop = draw(st.sampled_from(stops))
    if cap["linear_only"] and stop == "ftol":
        stop = "budget"
    if stop == "nan_grad" and not (cap["grad"] and not cap["composite"]):
        stop = "nan"  # a NaN gradient needs an algorithm that asks for gradients
    if stop == "kkt" and not cap["kkt"]:
        stop = "budget"
    diff = "user"
    # approximated derivatives only matter to (and are only generated for) algorithms that ask for gradients
    if not linear and not cap["composite"] and cap["grad"] and stop != "nan_grad" and draw(st.integers(0, 2)) == 0:
        diff = draw(st.sampled_from(["finite_differences", "finite_differences", "centered_differences", "complex_step"]))
    use_int = cap["int"] and not cap["composite"] and diff == "user" and draw(st.booleans())
    space = draw(bounded_spaces(max_dim=3 if (cap["global"] or cap["composite"]) else 4, min_dim=MIN_DIMENSION.get(algo, 1),
                                allow_integer=use_int, all_integer_ok=False))
    n_in = space_dimension(space)
    kinds = ("mdo_linear",) if linear else ("quad", "quad", "affine")
    constant = stop == "ftol" and draw(st.booleans())  # ftol fires on a constant objective, or on any with a huge ftol_abs
    obj = _scalarise(draw(function_specs(n_in, "f", kinds=kinds, max_dim=2 if multi else 1)), constant=constant)
    if cap["composite"] or stop == "kkt":
        obj["grad_1d"] = True  # LagrangeMultipliers (Augmented_Lagrangian_order_1, KKT criterion) needs a 1-D objective gradient
    if stop == "kkt":
        obj["scalar_as"] = "float"  # and a float objective value (a size-1 array ends in a (1, 1) right-hand side of nnls)
    if multi:
        obj["dim"] = 2
        while len(obj["c"]) < 2:  # a second objective component when Hypothesis drew a scalar
            obj["c"].append(0.5)
            obj["B"].append([draw(st.sampled_from([-1.0, 0.5, 1.0, 2.0])) for _ in range(n_in)])
    types = [t for t, ok in (("ineq", cap["ineq"]), ("eq", cap["eq"])) if ok]
    n_cons = draw(st.integers(0, 2)) if types else 0
    cons = []
    eq_left = n_in  # NLopt's SLSQP fails ("workspace is too small") with more equality components than variables
    for k in range(n_cons):
        ctype = draw(st.sampled_from(types))
        if ctype == "eq" and eq_left == 0:
            if "ineq" not in types:
                continue
            ctype = "ineq"
        name = ("g" if ctype == "ineq" else "h") + str(k + 1)
        fs = draw(function_specs(n_in, name, kinds=kinds, max_dim=min(2, eq_left) if ctype == "eq" else 2))
        fs["jac"] = "dense"
        if cap["composite"]:
            # Augmented_Lagrangian_order_0 updates its multipliers in place: 0-d for a constraint returning a python float,
            # then adds a (1,) array to it (broadcast ValueError, unrelated to budgets)
            fs["scalar_as"] = "array"
        if ctype == "eq":
            eq_left -= int(fs["dim"])
        cons.append({"type": ctype, "spec": fs})
    n_cons = len(cons)
    n_max = 10 if (cap["global"] or cap["composite"]) else 25
    if algo in SLOW_AFTER_INITIALISATION:
        n_max = 2
    n_iter = draw(st.one_of(st.integers(1, min(3, n_max)), st.integers(min(2, n_max), min(6, n_max)), st.integers(1, n_max)))
    nan = None
    if stop == "nan" and not linear:
        nan = _rule(draw, 1 + n_cons, max(1, min(n_iter, 6)))
    jac_nan = None
    if stop == "nan_grad" and not linear:
        # the gradient (finite values) becomes NaN while problem.stop_if_nan is False: the algorithm itself receives the
        # NaN and may propose a NaN design vector (DesvarIsNan must then end the run with a result)
        jac_nan = _rule(draw, 1, max(1, min(n_iter, 4)))
    obs = []
    if not multi and draw(st.integers(0, 3)) == 0:
        # the observables of a problem given to a linear-only solver must be linear too (OptimizationProblem.is_linear)
        fs = draw(function_specs(n_in, "o1", kinds=("mdo_linear",) if linear else ("quad", "affine"), max_dim=2))
        fs["jac"] = "dense"
        obs.append(fs)
    problem = {
        "space": space, "x0": [v for var in space["vars"] for v in var["value"]], "obj": obj, "cons": cons,
        "maximize": (not multi) and draw(st.integers(0, 4)) == 0, "linear": linear,
        "feasible_x0": bool(cap["linear_only"] or draw(st.integers(0, 3)) > 0), "nan": nan, "fail": None, "diff": diff,
        "jac_nan": jac_nan, "obs": obs, "stop_if_nan": not (stop == "nan_grad" and jac_nan is not None),
        # like a simulation code, the functions refuse a non-finite design vector (gemseo must never hand them one)
        "nonfinite_raises": stop == "nan_grad" and jac_nan is not None and draw(st.integers(0, 3)) > 0,
    }
    settings = {
        # NaN design vectors matter most on the unnormalised path (the one a DOE uses too)
        "normalize_design_space": draw(st.booleans()) and algo != "MNBI" and not (stop == "nan_grad" and draw(st.integers(0, 3)) > 0),
        "use_database": draw(st.integers(0, 7)) > 0 or cap["composite"] or cap["linear_only"] or cap["global"],
        "round_ints": draw(st.integers(0, 3)) > 0,
        "store_jacobian": draw(st.integers(0, 2)) > 0,
        "eq_tolerance": draw(st.sampled_from([1e-2, 1e-6])),
        "ineq_tolerance": draw(st.sampled_from([1e-4, 1e-2])),
    }
    if stop == "ftol":
        settings["ftol_abs"] = 1e-3 if constant else 1e9
    elif stop == "xtol":
        settings["xtol_abs"] = 1e9
    elif stop == "time":
        settings["max_time"] = 1e-9
    elif stop == "kkt":
        # a tolerance that fires as soon as all the gradients of a point are recorded, or one that rarely does
        settings[draw(st.sampled_from(["kkt_tol_abs", "kkt_tol_rel"]))] = draw(st.sampled_from([1e9, 1e9, 1e-3]))
        settings["store_jacobian"] = True  # documented: "KKT options can only be set with store_jacobian=True"
    if draw(st.integers(0, 7)) == 3:
        settings["scaling_threshold"] = draw(st.sampled_from([0.1, 1.0, 100.0]))
    seed = draw(st.integers(0, 2**16))
    extra = {}
    if algo == "MultiStart":
        n_start = draw(st.integers(1, 3))
        n_iter = max(n_iter, n_start + 1 + draw(st.integers(0, 3)))
        sub = draw(st.sampled_from(SUB_ALGOS_ANY if not cons else ["SLSQP", "NLOPT_COBYLA"]))
        extra = {"n_start": n_start, "opt_algo_name": sub, "doe_algo_settings": {"seed": seed}}
    elif algo.startswith("Augmented_Lagrangian"):
        sub = draw(st.sampled_from(SUB_ALGOS_GRADIENT if cap["grad"] else SUB_ALGOS_ANY[1:]))
        # the sub-problem is preprocessed with the normalisation of the main run: the sub-driver must use the same
        extra = {"sub_algorithm_name": sub, "sub_algorithm_settings": {
            "max_iter": draw(st.integers(2, 8)), "normalize_design_space": settings["normalize_design_space"]}}
    elif algo == "MNBI":
        extra = {"sub_optim_algo": draw(st.sampled_from(["SLSQP", "NLOPT_SLSQP"])), "n_sub_optim": draw(st.integers(3, 4)),
                 "sub_optim_max_iter": draw(st.integers(2, 8))}
    elif algo in ("DUAL_ANNEALING", "DIFFERENTIAL_EVOLUTION"):
        extra = {"seed": seed}
    second = None
    if draw(st.integers(0, 2)) == 0 and not cap["composite"]:
        pool = [n for n in (second_names or names) if _second_is_compatible(caps[n], cap, problem, use_int)
                and n not in SLOW_AFTER_INITIALISATION and n_in >= MIN_DIMENSION.get(n, 1) and (diff == "user" or caps[n]["grad"])]
        if pool:
            second = {"algo": draw(st.sampled_from(sorted(pool))), "max_iter": draw(st.integers(1, n_max)),
                      "reset": draw(st.booleans())}
        if algo not in SLOW_AFTER_INITIALISATION and draw(st.integers(0, 2)) > 0:
            # restart variant: the database is tampered with between the executions (outputs dropped by
            # Database.filter, output-less store, clear), then the same algorithm starts again from the same x0
            # with a budget that is not larger
            none = {"op": "filter", "keep": "none"}
            tamper = draw(st.sampled_from([none, none, none, none, {"op": "filter", "keep": "objective"},
                                           {"op": "filter", "keep": "constraints"}, {"op": "store_empty"}, {"op": "clear"}]))
            second = {"algo": algo, "max_iter": draw(st.integers(1, max(1, n_iter - 1))), "reset": draw(st.integers(0, 3)) > 0,
                      "tamper": tamper, "same_start": True}
    return {"algo": algo, "max_iter": n_iter, "stop": stop, "problem": problem, "settings": settings, "extra": extra,
            "seed": seed, "second": second}


def _second_is_compatible(cap2, cap1, problem, use_int) -> bool:
    """The second algorithm must accept the same problem (and is not a composite or a global one: budgets differ)."""
    if cap2["composite"]:
        return False
    types = {c["type"] for c in problem["cons"]}
    if "eq" in types and not cap2["eq"] or "ineq" in types and not cap2["ineq"]:
        return False
    if cap2["linear_only"] and not problem["linear"]:
        return False
    if cap2["linear_only"] and problem["cons"] and not problem["feasible_x0"]:
        return False  # an infeasible LP (ScipyLinprog fails on the solver's empty answer) is outside the property
    if use_int and not cap2["int"]:
        return False
    return True


def problem_matches(cap, problem) -> str:
    """'' when the capabilities declared in ALGORITHM_INFOS cover the problem, else the reason."""
    types = {c["type"] for c in problem["cons"]}
    if "eq" in types and not cap["eq"]:
        return "equality constraints"
    if "ineq" in types and not cap["ineq"]:
        return "inequality constraints"
    if cap["linear_only"] and not problem["linear"]:
        return "non-linear problem"
    if any(v["type"] == "integer" for v in problem["space"]["vars"]) and not cap["int"]:
        return "integer variables"
    if int(problem["obj"]["dim"]) > 1 and not cap["multi"]:
        return "multi-objective"
    return ""


# --------------------------------------------------------------------------- strategies: DOE
N_SAMPLES_ALGOS_MAX = {"PoissonDisk": 5, "OT_OPT_LHS": 8}


def doe_settings(draw, algo: str, cap: dict, space, seed: int):
    """Valid settings of a DOE algorithm producing a small design (the samples themselves are C14's matter)."""
    d = space_dimension(space)
    s = {}
    if algo == "CustomDOE":
        n = draw(st.integers(1, 10))
        rows = [[draw(st.integers(0, 8)) for _ in range(d)] for _ in range(n)]
        # duplicated rows on purpose
        for _ in range(draw(st.integers(0, 3))):
            rows.insert(draw(st.integers(0, len(rows))), list(rows[draw(st.integers(0, len(rows) - 1))]))
        return {"__levels__": rows}
    if algo == "OATDOE":
        return {"initial_point": [draw(st.sampled_from([0.0, 0.25, 0.5, 0.9])) for _ in range(d)], "step": draw(st.sampled_from([0.05, 0.1]))}
    if algo == "MorrisDOE":
        return {"n_samples": (d + 1) * draw(st.integers(1, 2)), "doe_algo_settings": {"n_samples": 2, "random_state": seed}}
    if algo == "DiagonalDOE":
        return {"n_samples": draw(st.integers(2, 9))}
    if algo in ("OT_FACTORIAL", "OT_AXIAL", "OT_COMPOSITE"):
        return {"levels": draw(st.sampled_from([[0.5], [0.25, 0.8], [1.0]])), "centers": draw(st.sampled_from([0.5, 0.25]))}
    if algo in ("OT_FULLFACT", "PYDOE_FULLFACT"):
        return {"n_samples": draw(st.integers(2, 3)) ** d}
    if algo == "OT_SOBOL_INDICES":
        return {"n_samples": (2 * d + 2) * draw(st.integers(1, 2)), "seed": seed}
    if algo == "PYDOE_CCDESIGN":
        # the default face 'circumscribed' puts the star points outside the bounds (sample placement is C14's matter)
        return {"face": draw(st.sampled_from(["faced", "inscribed"])), "center": draw(st.sampled_from([[1, 1], [2, 1], [0, 1]]))}
    if algo in ("PYDOE_BBDESIGN", "PYDOE_FF2N", "PYDOE_PBDESIGN"):
        return {}
    if cap["has_n_samples"]:
        s["n_samples"] = draw(st.integers(2, N_SAMPLES_ALGOS_MAX.get(algo, 12)))
        if algo == "OT_LHSC" or algo == "OT_LHS" or algo == "OT_OPT_LHS":
            s["n_samples"] = max(2, s["n_samples"])
    if cap["seed_key"]:
        s[cap["seed_key"]] = seed
    return s


@st.composite
def doe_cases(draw, caps: dict, names: list):
    algo = draw(st.sampled_from(names))
    cap = caps[algo]
    max_dim = 2 if algo == "PoissonDisk" else 3
    min_dim = min(cap["min_dim"], 3)
    use_int = cap["int"] and draw(st.integers(0, 2)) == 0
    space = draw(bounded_spaces(max_dim=max(max_dim, min_dim), min_dim=min_dim, allow_integer=use_int))
    n_in = space_dimension(space)
    seed = draw(st.integers(1, 2**16))
    settings = doe_settings(draw, algo, cap, space, seed)
    obj = _scalarise(draw(function_specs(n_in, "f", kinds=("quad", "affine"), max_dim=1)))
    n_cons = draw(st.integers(0, 2))
    cons = []
    for k in range(n_cons):
        ctype = draw(st.sampled_from(["ineq", "eq"]))
        fs = draw(function_specs(n_in, ("g" if ctype == "ineq" else "h") + str(k + 1), kinds=("quad", "affine"), max_dim=2))
        fs["jac"] = "dense"
        cons.append({"type": ctype, "spec": fs})
    # parallel execution: the functions run in forked workers, the harness sees no call record; the rules are then
    # half-spaces only (decidable from the sample alone)
    n_processes = 2 if draw(st.integers(0, 5)) == 0 else 1
    fail = _rule(draw, 1 + n_cons, 6, n_processes > 1) if draw(st.integers(0, 1)) == 0 else None
    nan = _rule(draw, 1 + n_cons, 6, n_processes > 1) if draw(st.integers(0, 3)) == 0 else None
    eval_jac = draw(st.integers(0, 3)) == 0
    obs = []
    if draw(st.integers(0, 3)) == 0:
        fs = draw(function_specs(n_in, "o1", kinds=("quad", "affine"), max_dim=2))
        fs["jac"] = "dense"
        obs.append(fs)
    # a NaN Jacobian with finite values (a DOE sets stop_if_nan=False: it must be recorded and the DOE must go on)
    jac_nan = _rule(draw, 1 + n_cons, 6, n_processes > 1) if eval_jac and draw(st.integers(0, 2)) > 0 else None
    problem = {"space": space, "x0": None, "obj": obj, "cons": cons, "maximize": draw(st.integers(0, 5)) == 0, "linear": False,
               "feasible_x0": False, "nan": nan, "fail": fail, "jac_nan": jac_nan, "obs": obs, "diff": "user"}
    for var in space["vars"]:
        if draw(st.booleans()):
            var["value"] = None  # a DOE does not need a current value
    second = None
    if draw(st.integers(0, 2)) == 0:
        second = {"reset": draw(st.booleans()), "same_seed": draw(st.booleans())}
    return {
        "algo": algo, "problem": problem, "settings": settings, "seed": seed,
        "eval_jac": eval_jac,
        "normalize_design_space": draw(st.integers(0, 7)) == 3,
        "use_database": True,
        "n_processes": n_processes,
        # the degenerate time limit (fires at the first recorded sample), serial or parallel
        "max_time": 1e-9 if draw(st.integers(0, 7)) == 5 else 0.0,
        "second": second,
    }


def custom_samples(space: SpaceModel, rows) -> np.ndarray:
    """Physical samples of a CustomDOE from level rows (0-8 per component; integer components stay integral)."""
    out = np.zeros((len(rows), space.dim))
    for r, row in enumerate(rows):
        for i, level in enumerate(row):
            lb, ub = space.lb[i], space.ub[i]
            if space.is_int[i]:
                out[r, i] = lb + (int(level) % (int(ub - lb) + 1))
            else:
                out[r, i] = lb + (int(level) / 8.0) * (ub - lb)
    return out


# --------------------------------------------------------------------------- strategies: histories
@st.composite
def instance_cases(draw, opt_caps: dict, opt_names: list, doe_caps: dict, doe_names: list):
    """One library *instance* executed on 2-3 different problems (some with observables)."""
    if draw(st.integers(0, 2)) == 0:
        algo = draw(st.sampled_from(doe_names))
        steps = [draw(doe_cases(doe_caps, [algo])) for _ in range(draw(st.integers(2, 3)))]
        kind = "doe"
    else:
        algo = draw(st.sampled_from(opt_names))
        steps = [draw(opt_cases(opt_caps, [algo])) for _ in range(draw(st.integers(2, 3)))]
        kind = "opt"
    for step in steps:
        step["second"] = None
    # observables on some problems, never on all of them by construction of the first two steps
    n_in = space_dimension(steps[0]["problem"]["space"])
    if not steps[0]["problem"].get("obs") and int(steps[0]["problem"]["obj"]["dim"]) == 1:
        fs = draw(function_specs(n_in, "o1", kinds=("mdo_linear",) if steps[0]["problem"]["linear"] else ("quad", "affine"), max_dim=2))
        fs["jac"] = "dense"
        steps[0]["problem"]["obs"] = [fs]
    if draw(st.booleans()):
        steps[1]["problem"]["obs"] = []
    return {"kind": kind, "algo": algo, "steps": steps}


SIMPLE_DOES = ["CustomDOE", "DiagonalDOE", "LHS", "OT_MONTE_CARLO", "PYDOE_FULLFACT", "Halton"]


@st.composite
def mixed_cases(draw, opt_caps: dict, opt_names: list, doe_caps: dict):
    """An optimisation (possibly ended by an exception of a user function) followed by a DOE on the same problem."""
    opt = draw(opt_cases(opt_caps, opt_names))
    opt["second"] = None
    opt["settings"]["use_database"] = True
    opt["settings"]["normalize_design_space"] = False  # the DOE keeps the preprocessing of the first run
    opt["settings"]["store_jacobian"] = True
    problem = opt["problem"]
    n_funcs = 1 + len(problem["cons"]) + len(problem.get("obs") or [])
    if not problem["linear"] and draw(st.integers(0, 2)) == 0:
        # a user function that raises: execute lets the exception through, the next driver must not be disturbed
        problem["fail"] = _rule(draw, n_funcs, 4)
    algo = draw(st.sampled_from([n for n in SIMPLE_DOES if n in doe_caps]))
    seed = draw(st.integers(1, 2**16))
    doe = {"algo": algo, "settings": doe_settings(draw, algo, doe_caps[algo], problem["space"], seed), "seed": seed,
           # approximated derivatives call the functions at probe points: no Jacobians in the DOE then
           "eval_jac": draw(st.booleans()) and problem["diff"] == "user",
           "normalize_design_space": False, "use_database": True, "n_processes": 1, "second": None}
    return {"opt": opt, "doe": doe}
