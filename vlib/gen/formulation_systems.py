"""MDO problems on top of the coupled systems of :mod:`vlib.gen.coupled` (C17).

Nothing here touches gemseo's formulation code: the module draws JSON payloads and provides the
plain-numpy reference values of the functions that the formulations must expose.

Pointwise problems (``formulation_cases()``)
--------------------------------------------

::

    {"system":  payload of vlib.gen.coupled (possibly made acyclic, see make_acyclic),
     "grammar": "SimpleGrammar" | "JSONGrammar",
     "x":  {x name: [floats]},            # design point, half-integer grid
     "dx": {x name: [floats]},            # second design point = x + dx
     "start": {output name: [floats]},    # start / current values of every discipline output
     "ds": [{"name": n, "lo": [..] | None, "hi": [..] | None}, ...],   # the user's design space, user's order:
                                                                       # every design input and every coupling;
                                                                       # optional "type": "integer" on ALL the design
                                                                       # inputs (integer values and bounds)
     "mdf_keeps": [bool, ...],            # per coupling (sorted): is it in the space handed to MDF / DisciplinaryOpt
     "objective": output name, "maximize": bool,
     "constraints": [{"outputs": [names of ONE discipline], "type": "eq"|"ineq", "value": a, "positive": bool,
                      "name": "" | "cK"}],
     "normalize": bool,                   # IDF normalize_constraints
     "mda": {"main": class name, "inner": class name | None},
     "delta": {coupling: [floats]},       # perturbed IDF targets = y*(x) + delta  (never all zero)
     "perturbed_first": bool, "jac_first": bool,
     "via": "class" | "scenario",
     "missing": int | None,               # coupling (index modulo) removed from the space to see IDF's rejection
     "equilibrium": bool,                 # IDF start_at_equilibrium
     "x_default": {x name: [floats]},     # default values of the design inputs in the disciplines (differ from "x")
     "idf_n_processes": 1 | 2,            # IDF n_processes (threads)
     "declare_linear": bool}              # linear systems: the disciplines declare io.set_linear_relationships()

Optimisation problems (``convex_problems()``) add to a LINEAR system one more discipline ``DOBJ`` with

    obj = 1/2 sum_x  mu_x |x - xt_x|^2  +  1/2 sum_(read y) sum_k  w_yk (y_k - t_yk)^2,      mu >= 1, w >= 0

so that, the couplings being affine in x, the reduced objective is a strictly convex quadratic; with box bounds
and at most one affine inequality constraint (strictly feasible by construction) the unique optimum is obtained by
:func:`solve_convex_qp` (enumeration of the active sets of the KKT system: exact up to a linear solve).
"""

from __future__ import annotations

import itertools

import numpy as np
from hypothesis import strategies as st

from vlib.gen.coupled import X_SCALE, CoupledSystem, coupled_systems

__all__ = [
    "HingedSystem",
    "system_model",
    "HINGE_AT",
    "make_acyclic",
    "topological_order",
    "is_acyclic",
    "formulation_cases",
    "Reference",
    "convex_problems",
    "QuadraticObjectiveTwin",
    "quadratic_objective_discipline",
    "reduced_quadratic",
    "weak_couplings",
    "solve_convex_qp",
    "MDA_CHOICES",
]

HALF = st.integers(-4, 4).map(lambda k: k * 0.5)

HINGE_AT = 0.25  # kink of the hinge terms: never a generated design value (half-integer / integer grids)


# ======================================================================================
# hinge terms: partial Jacobians whose sparsity pattern depends on the point
# ======================================================================================
class HingedSystem(CoupledSystem):
    """A :class:`CoupledSystem` whose outputs may also hold hinge terms of the DESIGN inputs.

    ``"hinge": {x name: integer block}`` on an output adds ``X_SCALE * block @ max(x - HINGE_AT, 0)``; the input must
    also appear in ``"lin"`` (possibly with a zero block), which is how the base class learns about it.  The system is
    still smooth in the couplings (contraction, solve and total derivatives untouched); the partial derivative with
    respect to ``x`` is ``X_SCALE * (L + H * 1[x > HINGE_AT])``: with ``L = 0`` the block is exactly zero wherever the
    hinges are inactive, so a discipline storing ``csr_array`` blocks returns blocks WITHOUT any stored entry at
    some points and populated ones at others.
    """

    def __init__(self, payload: dict):
        super().__init__(payload)
        self._hinges = []  # per discipline: {output: [(x name, block)]}
        self.has_hinge = False
        for d in payload["discs"]:
            per_out = {}
            for o in d["outputs"]:
                terms = []
                for name, block in o.get("hinge", {}).items():
                    if name not in self.x_names or name not in o.get("lin", {}):
                        raise ValueError("a hinge term reads a design input that is also listed in 'lin'")
                    terms.append((name, self._block(o, name, block)))
                    self.has_hinge = True
                per_out[o["name"]] = terms
            self._hinges.append(per_out)
        if self.has_hinge:
            self.linear = False

    def run(self, i: int, data: dict) -> dict:
        out = super().run(i, data)
        for name, terms in self._hinges[i].items():
            for x_name, block in terms:
                u = np.asarray(data[x_name], dtype=float)
                out[name] = out[name] + X_SCALE * (block @ np.maximum(u - HINGE_AT, 0.0))
        return out

    def partials(self, i: int, data: dict) -> dict:
        jac = super().partials(i, data)
        for name, terms in self._hinges[i].items():
            for x_name, block in terms:
                u = np.asarray(data[x_name], dtype=float)
                jac[name][x_name] = jac[name][x_name] + X_SCALE * block * (u > HINGE_AT).astype(float)[None, :]
        return jac


def system_model(payload: dict) -> CoupledSystem:
    """The plain-numpy model of a payload (with or without hinge terms)."""
    if any("hinge" in o for d in payload["discs"] for o in d["outputs"]):
        return HingedSystem(payload)
    return CoupledSystem(payload)


@st.composite
def _with_hinges(draw, payload: dict):
    """Give some outputs hinge terms of a design input, in disciplines storing sparse Jacobian blocks."""
    if draw(st.integers(0, 3)) > 0:
        return payload
    discs = [{**d, "outputs": [dict(o) for o in d["outputs"]]} for d in payload["discs"]]
    done = False
    for d in discs:
        if done and draw(st.booleans()):
            continue
        for o in d["outputs"]:
            if done and draw(st.booleans()):
                continue
            v = draw(st.sampled_from(payload["x"]))
            block = [[draw(st.integers(-3, 3)) for _ in range(v["size"])] for _ in range(o["size"])]
            block[0][0] = block[0][0] or 2
            lin = dict(o.get("lin", {}))
            if v["name"] not in lin or draw(st.integers(0, 3)) > 0:
                # no linear part: the whole block vanishes (no stored entry) where the hinges are inactive
                lin[v["name"]] = [[0] * v["size"] for _ in range(o["size"])]
            o["lin"] = lin
            o["hinge"] = {v["name"]: block}
            d["jac"] = "sparse"
            done = True
    return {"q": payload["q"], "x": payload["x"], "discs": discs}


# ======================================================================================
# structure helpers
# ======================================================================================
def make_acyclic(payload: dict) -> dict:
    """Copy of a system payload without any cycle: a discipline only reads outputs of EARLIER list entries.

    A discipline left without any input reads the first design input (block of ones).  Second, non-coupling
    outputs are treated alike.  The list order is then a topological order, but the result is still "any
    coupling graph without cycle": forward edges are whatever the original system had.
    """
    produced_before: set[str] = set()
    x_names = {v["name"] for v in payload["x"]}
    out = {"q": payload["q"], "x": [dict(v) for v in payload["x"]], "discs": []}
    all_outputs = {o["name"] for d in payload["discs"] for o in d["outputs"]}
    for d in payload["discs"]:
        nd = {"name": d["name"], "jac": d.get("jac", "dense"), "outputs": []}
        for o in d["outputs"]:
            no = {"name": o["name"], "size": o["size"], "c": list(o["c"])}
            for kind in ("lin", "tanh"):
                if kind in o:
                    kept = {n: b for n, b in o[kind].items() if n in x_names or (n in produced_before and n in all_outputs)}
                    if kept or kind == "lin":
                        no[kind] = kept
            if not no.get("lin") and not no.get("tanh"):
                x0 = payload["x"][0]
                no["lin"] = {x0["name"]: [[1] * x0["size"] for _ in range(o["size"])]}
            nd["outputs"].append(no)
        out["discs"].append(nd)
        produced_before |= {o["name"] for o in d["outputs"]}
    coupled = any(n in all_outputs for d in out["discs"] for o in d["outputs"] for k in ("lin", "tanh") for n in o.get(k, {}))
    if not coupled and len(out["discs"]) > 1:  # keep at least one (forward) coupling
        src = out["discs"][0]["outputs"][0]
        dst = out["discs"][-1]["outputs"][0]
        dst["lin"][src["name"]] = [[1] * src["size"] for _ in range(dst["size"])]
    return out


def ensure_a_design_input_is_read(payload: dict) -> dict:
    """The payload itself when some discipline reads a design input, else a copy whose first output reads x[0].

    (An MDO problem whose disciplines read no design variable has an empty MDF design space: nothing to optimise.)
    """
    x_names = {v["name"] for v in payload["x"]}
    if any(n in x_names for d in payload["discs"] for o in d["outputs"] for k in ("lin", "tanh") for n in o.get(k, {})):
        return payload
    x0 = payload["x"][0]
    discs = [dict(d) for d in payload["discs"]]
    first = dict(discs[0]["outputs"][0])
    first["lin"] = {**first.get("lin", {}), x0["name"]: [[1] * x0["size"] for _ in range(first["size"])]}
    discs[0] = {**discs[0], "outputs": [first, *discs[0]["outputs"][1:]]}
    return {"q": payload["q"], "x": payload["x"], "discs": discs}


def is_acyclic(model: CoupledSystem) -> bool:
    succ = model.graph()
    return all(len(c) == 1 and c[0] not in succ[c[0]] for c in model.sccs())


def topological_order(model: CoupledSystem) -> list[int]:
    """Discipline indices such that every discipline comes after the producers of its inputs (acyclic systems)."""
    succ = model.graph()
    n = len(succ)
    indeg = [0] * n
    for i in range(n):
        for j in succ[i]:
            indeg[j] += 1
    ready = sorted(i for i in range(n) if indeg[i] == 0)
    order = []
    while ready:
        i = ready.pop(0)
        order.append(i)
        for j in sorted(succ[i]):
            indeg[j] -= 1
            if indeg[j] == 0:
                ready.append(j)
        ready.sort()
    if len(order) != n:
        raise ValueError("the system has a cycle")
    return order


def used_design_inputs(model: CoupledSystem) -> list[str]:
    read = {n for names in model.inputs_of for n in names}
    return [n for n in model.x_names if n in read]


def weak_couplings(model: CoupledSystem) -> list[str]:
    """Couplings that are not read inside the strongly connected component (or self-coupled discipline) producing them."""
    comp = {}
    for k, c in enumerate(model.sccs()):
        for i in c:
            comp[i] = k
    weak = []
    for n in model.couplings():
        i = model.producer[n]
        if not any(comp[j] == comp[i] and n in model.inputs_of[j] for j in range(len(model.inputs_of))):
            weak.append(n)
    return weak


def reads_a_coupling(model: CoupledSystem, output: str) -> bool:
    """Whether ``output`` directly reads a coupling (then it depends on y, hence on the whole coupled solve)."""
    i = model.producer[output]
    for name, _, terms in model._maps[i]:
        if name == output:
            return any(t[0] in model.producer and (t[2].any() or t[3] is not None) for t in terms)
    return False


MDA_CHOICES = [
    {"main": "MDAChain", "inner": None},
    {"main": "MDAChain", "inner": None},
    {"main": "MDAChain", "inner": "MDAGaussSeidel"},
    {"main": "MDAChain", "inner": "MDAJacobi"},
    {"main": "MDAChain", "inner": "MDANewtonRaphson"},
    {"main": "MDAGaussSeidel", "inner": None},
    {"main": "MDAJacobi", "inner": None},
    {"main": "MDAJacobi", "inner": None},  # (its input grammar holds the weak couplings too)
    {"main": "MDANewtonRaphson", "inner": None},
]


# ======================================================================================
# pointwise cases
# ======================================================================================
@st.composite
def _with_second_couplings(draw, payload: dict):
    """Turn some non-coupling second outputs into couplings: another discipline reads them.

    coupled_systems() gives every discipline exactly one coupling output; IDF's consistency constraints and the
    coupling removal of MDF must also cope with disciplines producing several couplings.  (The global scale of the
    coupling blocks is recomputed from the payload: the system stays a contraction with factor q.)
    """
    n = len(payload["discs"])
    if n < 2 or not any(len(d["outputs"]) > 1 for d in payload["discs"]) or draw(st.integers(0, 4)) == 0:
        return payload
    discs = [{**d, "outputs": [dict(o) for o in d["outputs"]]} for d in payload["discs"]]
    for i, d in enumerate(discs):
        for g in d["outputs"][1:]:
            if draw(st.integers(0, 3)) > 0:
                j = draw(st.sampled_from([k for k in range(n) if k != i]))
                target = discs[j]["outputs"][0]
                block = [[draw(st.integers(-3, 3)) for _ in range(g["size"])] for _ in range(target["size"])]
                block[0][0] = block[0][0] or 1
                target["lin"] = {**target.get("lin", {}), g["name"]: block}
    return {"q": payload["q"], "x": payload["x"], "discs": discs}


@st.composite
def formulation_cases(draw):
    shape = draw(st.sampled_from(["any", "any", "any", "ring", "acyclic"]))
    system = draw(coupled_systems(max_disc=4, all_strong=True if shape == "ring" else None))
    system = draw(_with_second_couplings(system))
    if shape == "acyclic":
        system = make_acyclic(system)
    system = draw(_with_hinges(ensure_a_design_input_is_read(system)))
    model = system_model(system)
    couplings = model.couplings()
    info_all_strong = len(model.sccs()) == 1 and len(system["discs"]) > 1
    # every design variable integer-typed (the MDF design vector then has an integer dtype) or all of them float
    integer_x = draw(st.integers(0, 3)) == 0
    if integer_x:
        x = {v["name"]: [float(draw(st.integers(-2, 2))) for _ in range(v["size"])] for v in system["x"]}
        dx = {v["name"]: [draw(st.sampled_from([-1.0, 0.0, 1.0, 2.0])) for _ in range(v["size"])] for v in system["x"]}
    else:
        x = {v["name"]: [draw(HALF) for _ in range(v["size"])] for v in system["x"]}
        dx = {v["name"]: [draw(st.sampled_from([-1.0, -0.5, 0.0, 0.5, 1.0])) for _ in range(v["size"])] for v in system["x"]}
    start = {n: [draw(HALF) for _ in range(model.sizes[n])] for n in model.out_names}
    normalize = draw(st.booleans())
    # the user's design space: design inputs and couplings in a drawn order
    names = draw(st.permutations(model.x_names + couplings))
    ds = []
    for n in names:
        size = model.sizes[n]
        if n in model.producer:
            lo = [float(draw(st.integers(-90, -60))) for _ in range(size)]
            hi = [float(draw(st.integers(60, 90))) for _ in range(size)]
            # a coupling without (finite) bounds, also with normalize_constraints: |ub - lb| is then infinite
            kind = draw(st.integers(0, 24 if normalize else 4))
            if kind == 0:
                lo = hi = None
            elif kind == 1 and normalize:
                hi = None
        elif integer_x:  # integer variables with integer bounds
            lo = [min(x[n][k], x[n][k] + dx[n][k]) - draw(st.sampled_from([0.0, 1.0, 2.0])) for k in range(size)]
            hi = [max(x[n][k], x[n][k] + dx[n][k]) + draw(st.sampled_from([1.0, 2.0])) for k in range(size)]
        elif draw(st.integers(0, 5)) == 0:
            lo = hi = None
        else:
            lo = [min(x[n][k], x[n][k] + dx[n][k]) - draw(st.sampled_from([0.0, 0.5, 2.0])) for k in range(size)]
            hi = [max(x[n][k], x[n][k] + dx[n][k]) + draw(st.sampled_from([0.5, 2.0])) for k in range(size)]
        entry = {"name": n, "lo": lo, "hi": hi}
        if integer_x and n not in model.producer:
            entry["type"] = "integer"
        ds.append(entry)
    # objective and constraints among the discipline outputs, biased towards functions of the couplings
    on_y = [n for n in model.out_names if reads_a_coupling(model, n)]
    pool = on_y if on_y and draw(st.integers(0, 3)) > 0 else model.out_names
    objective = draw(st.sampled_from(pool))
    constraints = []
    for k in range(draw(st.integers(0, 2))):
        i = draw(st.integers(0, len(system["discs"]) - 1))
        outs = model.outputs_of[i]
        chosen = [draw(st.sampled_from(outs))]
        if len(outs) > 1 and draw(st.booleans()):
            chosen = list(draw(st.permutations(outs)))
        constraints.append({
            "outputs": chosen,
            "type": draw(st.sampled_from(["eq", "ineq"])),
            "value": draw(st.sampled_from([0.0, 0.0, 1.0, -0.5])),
            "positive": draw(st.booleans()),
            "name": draw(st.sampled_from(["", f"c{k}"])),
        })
    mda = dict(draw(st.sampled_from(MDA_CHOICES)))
    if mda["main"] == "MDANewtonRaphson" and not info_all_strong:
        mda = {"main": "MDAChain", "inner": "MDANewtonRaphson"}  # the documented way for weakly coupled systems
    mdf_keeps = draw(st.sampled_from(["all", "all", "none", "mixed"]).flatmap(
        lambda mode: st.just([mode == "all"] * len(couplings)) if mode != "mixed" else st.lists(st.booleans(), min_size=len(couplings), max_size=len(couplings))))
    weak = weak_couplings(model)
    if any(k and n in weak for n, k in zip(couplings, mdf_keeps)) and draw(st.integers(0, 2)) == 0:
        # MDAJacobi is the main MDA whose input grammar also holds the weak couplings: MDF must remove them itself
        mda = {"main": "MDAJacobi", "inner": None}
    delta = {n: [draw(st.sampled_from([-1.0, -0.5, 0.0, 0.25, 0.5, 2.0])) for _ in range(model.sizes[n])] for n in couplings}
    if couplings and not any(v for vals in delta.values() for v in vals):
        delta[couplings[0]][0] = 0.5
    return {
        "system": system,
        "grammar": draw(st.sampled_from(["SimpleGrammar", "SimpleGrammar", "SimpleGrammar", "JSONGrammar"])),
        "x": x, "dx": dx, "start": start, "ds": ds,
        "mdf_keeps": mdf_keeps,
        "objective": objective, "maximize": draw(st.integers(0, 3)) == 0,
        "constraints": constraints, "normalize": normalize, "mda": mda, "delta": delta,
        "perturbed_first": draw(st.booleans()), "jac_first": draw(st.booleans()),
        "via": draw(st.sampled_from(["class", "class", "scenario"])),
        "missing": draw(st.one_of(st.none(), st.none(), st.integers(0, 7))),
        "equilibrium": draw(st.integers(0, 2)) == 0,
        # defaults of the disciplines for the design inputs: NOT the design point (shifted by a non-zero amount)
        "x_default": {n: [v + draw(st.sampled_from([-1.5, -0.5, 0.5, 1.0])) for v in vals] for n, vals in x.items()},
        "idf_n_processes": draw(st.sampled_from([1, 2])),
        "declare_linear": draw(st.booleans()),
    }


class Reference:
    """Closed-form values of the functions of an MDO problem built on a :class:`CoupledSystem`."""

    def __init__(self, model: CoupledSystem):
        self.model = model
        self.couplings = model.couplings()
        self.used_x = used_design_inputs(model)

    # ---- design spaces
    def mdf_names(self, user_names: list[str]) -> list[str]:
        """Variables optimised by MDF / DisciplinaryOpt: the design inputs read by a discipline, user's order."""
        return [n for n in user_names if n in self.used_x]

    def idf_names(self, user_names: list[str]) -> list[str]:
        return [n for n in user_names if n in self.used_x or n in self.couplings]

    # ---- values
    @staticmethod
    def standard_form(value: np.ndarray, spec: dict | None) -> np.ndarray:
        """``spec`` = constraint description (c(x) - a, negated when positive) or {"maximize": bool}."""
        if spec is None:
            return value
        if "maximize" in spec:
            return -value if spec["maximize"] else value
        out = value - spec["value"] if spec["value"] != 0 else value
        return -out if spec["positive"] else out

    def coupled(self, x: dict):
        sol = self.model.solve(x)
        return sol, self.model.total_derivatives(x, sol)

    def mdf_value(self, outputs: list[str], sol: dict) -> np.ndarray:
        return np.concatenate([sol[n] for n in outputs])

    def mdf_jacobian(self, outputs: list[str], total: dict, names: list[str]) -> np.ndarray:
        """d outputs*/dx, columns in the order ``names`` (zero columns for variables nobody reads)."""
        m = self.model
        rows = []
        for o in outputs:
            rows.append(np.hstack([total[o][n] if n in m.x_names else np.zeros((m.sizes[o], m.sizes[n])) for n in names]))
        return np.vstack(rows)

    def idf_value(self, outputs: list[str], data: dict) -> np.ndarray:
        i = self.model.producer[outputs[0]]
        res = self.model.run(i, data)
        return np.concatenate([res[n] for n in outputs])

    def idf_jacobian(self, outputs: list[str], data: dict, names: list[str]) -> np.ndarray:
        m = self.model
        i = m.producer[outputs[0]]
        part = m.partials(i, data)
        rows = []
        for o in outputs:
            rows.append(np.hstack([part[o][n] if n in m.inputs_of[i] else np.zeros((m.sizes[o], m.sizes[n])) for n in names]))
        return np.vstack(rows)

    def consistency_value(self, outputs: list[str], data: dict, norm: dict) -> np.ndarray:
        """(y_out(x, y_t) - y_t) / norm for the couplings ``outputs`` of one discipline."""
        i = self.model.producer[outputs[0]]
        res = self.model.run(i, data)
        return np.concatenate([(res[n] - np.asarray(data[n], dtype=float)) / norm[n] for n in outputs])

    def consistency_jacobian(self, outputs: list[str], data: dict, norm: dict, names: list[str]) -> np.ndarray:
        m = self.model
        jac = self.idf_jacobian(outputs, data, names)
        row = 0
        for o in outputs:
            col = 0
            for n in names:
                if n == o:
                    jac[row : row + m.sizes[o], col : col + m.sizes[n]] -= np.eye(m.sizes[o])
                col += m.sizes[n]
            jac[row : row + m.sizes[o], :] /= np.asarray(norm[o], dtype=float).reshape(-1, 1) * np.ones((m.sizes[o], 1))
            row += m.sizes[o]
        return jac


# ======================================================================================
# strictly convex optimisation problems
# ======================================================================================
class QuadraticObjectiveTwin:
    """obj = 1/2 sum_x mu_x |x - xt_x|^2 + 1/2 sum_y sum_k w_yk (y_k - t_yk)^2 (plain numpy)."""

    def __init__(self, spec: dict):
        self.spec = spec
        self.input_names = list(spec["x"]) + list(spec["y"])

    def value(self, data: dict) -> float:
        val = 0.0
        for n, s in self.spec["x"].items():
            d = np.asarray(data[n], dtype=float) - np.array(s["t"], dtype=float)
            val += 0.5 * s["mu"] * float(d @ d)
        for n, s in self.spec["y"].items():
            d = np.asarray(data[n], dtype=float) - np.array(s["t"], dtype=float)
            val += 0.5 * float(np.array(s["w"], dtype=float) @ (d * d))
        return val

    def gradient(self, data: dict) -> dict:
        g = {}
        for n, s in self.spec["x"].items():
            g[n] = s["mu"] * (np.asarray(data[n], dtype=float) - np.array(s["t"], dtype=float))
        for n, s in self.spec["y"].items():
            g[n] = np.array(s["w"], dtype=float) * (np.asarray(data[n], dtype=float) - np.array(s["t"], dtype=float))
        return g


_QUAD_CLASS = {}


def quadratic_objective_discipline(spec: dict, sizes: dict, defaults: dict, grammar_type: str = "SimpleGrammar"):
    """The gemseo discipline ``DOBJ`` computing ``obj`` with its exact Jacobian."""
    from gemseo.core.discipline import Discipline

    if grammar_type not in _QUAD_CLASS:

        class QuadraticObjective(Discipline):
            default_grammar_type = Discipline.GrammarType(grammar_type)

            def __init__(self, spec, sizes, defaults):
                super().__init__(name="DOBJ")
                self.twin = QuadraticObjectiveTwin(spec)
                self.n_run = 0
                names = self.twin.input_names
                self.io.input_grammar.update_from_data({n: np.zeros(sizes[n]) for n in names})
                self.io.output_grammar.update_from_data({"obj": np.zeros(1)})
                self.io.input_grammar.defaults.update({n: np.array(defaults[n], dtype=float) for n in names})

            def _run(self, input_data):
                self.n_run += 1
                return {"obj": np.array([self.twin.value(input_data)])}

            def _compute_jacobian(self, input_names=(), output_names=()):
                grad = self.twin.gradient(self.io.data)
                self.jac = {"obj": {n: g.reshape(1, -1) for n, g in grad.items()}}

        _QUAD_CLASS[grammar_type] = QuadraticObjective
    return _QUAD_CLASS[grammar_type](spec, sizes, defaults)


def reduced_quadratic(model: CoupledSystem, spec: dict):
    """(H, g0, f0, A, b): obj(x) = f0 + g0.x + 1/2 x.H.x and stacked outputs v*(x) = A x + b of a LINEAR system."""
    if not model.linear:
        raise ValueError("linear systems only")
    zero = {n: np.zeros(model.sizes[n]) for n in model.x_names}
    sol0 = model.solve(zero)
    total = model.total_derivatives(zero, sol0)
    b = model.pack(sol0)
    a = np.vstack([np.hstack([total[o][xn] for xn in model.x_names]) for o in model.out_names]) if model.out_names else np.zeros((0, model.n_x))
    h = np.zeros((model.n_x, model.n_x))
    g0 = np.zeros(model.n_x)
    f0 = 0.0
    for n, s in spec["x"].items():
        sl = slice(model.x_offset[n], model.x_offset[n] + model.sizes[n])
        t = np.array(s["t"], dtype=float)
        h[sl, sl] += s["mu"] * np.eye(model.sizes[n])
        g0[sl] += -s["mu"] * t
        f0 += 0.5 * s["mu"] * float(t @ t)
    for n, s in spec["y"].items():
        sl = slice(model.offset[n], model.offset[n] + model.sizes[n])
        w = np.array(s["w"], dtype=float)
        r = b[sl] - np.array(s["t"], dtype=float)
        an = a[sl, :]
        h += an.T @ (w[:, None] * an)
        g0 += an.T @ (w * r)
        f0 += 0.5 * float(w @ (r * r))
    return h, g0, f0, a, b


def solve_convex_qp(h, g0, lo, hi, c_mat=None, c_rhs=None, tol: float = 1e-9):
    """Unique minimiser of g0.x + 1/2 x.H.x (H positive definite) s.t. lo <= x <= hi, C x <= d.

    Enumeration of the active sets; for each one the equality-constrained KKT system is solved and primal
    feasibility / dual signs are checked.  Returns ``(x, active description)``.
    """
    n = len(g0)
    m = 0 if c_mat is None else c_mat.shape[0]
    best = None
    for bound_state in itertools.product((0, -1, 1), repeat=n):
        for rows in itertools.chain.from_iterable(itertools.combinations(range(m), k) for k in range(m + 1)):
            e_rows, e_rhs, signs = [], [], []
            for k, s in enumerate(bound_state):
                if s:
                    row = np.zeros(n)
                    row[k] = 1.0
                    e_rows.append(row)
                    e_rhs.append(lo[k] if s < 0 else hi[k])
                    signs.append(-1.0 if s < 0 else 1.0)  # multiplier sign convention: grad + sum lam * row = 0
            for r in rows:
                e_rows.append(c_mat[r])
                e_rhs.append(c_rhs[r])
                signs.append(1.0)
            k_e = len(e_rows)
            if k_e > n:
                continue
            if k_e:
                e = np.array(e_rows)
                kkt = np.block([[h, e.T], [e, np.zeros((k_e, k_e))]])
                rhs = np.concatenate([-g0, np.array(e_rhs)])
                if np.linalg.matrix_rank(e) < k_e:
                    continue
                z = np.linalg.solve(kkt, rhs)
                xs, lam = z[:n], z[n:]
            else:
                xs, lam = np.linalg.solve(h, -g0), np.zeros(0)
            if np.any(xs < lo - tol) or np.any(xs > hi + tol):
                continue
            if m and np.any(c_mat @ xs > c_rhs + tol):
                continue
            if any(lam[j] * signs[j] < -tol for j in range(k_e)):
                continue
            val = float(g0 @ xs + 0.5 * xs @ h @ xs)
            if best is None or val < best[0]:
                best = (val, xs, {"bounds": list(bound_state), "rows": list(rows)})
    if best is None:
        raise ValueError("no KKT point found (infeasible problem?)")
    return best[1], best[2]


def _restrict_design_inputs(payload: dict, xs: list[dict]) -> dict:
    """Copy of a system payload reading only the design inputs ``xs`` (a discipline left without input reads xs[0])."""
    kept = {v["name"] for v in xs}
    dropped = {v["name"] for v in payload["x"]} - kept
    out = {"q": payload["q"], "x": [dict(v) for v in xs], "discs": []}
    for d in payload["discs"]:
        nd = {"name": d["name"], "jac": d.get("jac", "dense"), "outputs": []}
        for o in d["outputs"]:
            no = {"name": o["name"], "size": o["size"], "c": list(o["c"])}
            for kind in ("lin", "tanh"):
                if kind in o:
                    blocks = {n: b for n, b in o[kind].items() if n not in dropped}
                    if blocks or kind == "lin":
                        no[kind] = blocks
            if not no.get("lin") and not no.get("tanh"):
                no["lin"] = {xs[0]["name"]: [[1] * xs[0]["size"] for _ in range(o["size"])]}
            nd["outputs"].append(no)
        out["discs"].append(nd)
    return out


@st.composite
def convex_problems(draw):
    shape = draw(st.sampled_from(["any", "any", "ring", "acyclic"]))
    system = draw(coupled_systems(max_disc=3, nonlinear=False, all_strong=True if shape == "ring" else None, max_size=2))
    if shape == "acyclic":
        system = make_acyclic(system)
    # at most 4 design components keep the enumeration small and SLSQP quick
    total, xs = 0, []
    for v in system["x"]:
        if total + v["size"] <= 4:
            xs.append(v)
            total += v["size"]
    system = ensure_a_design_input_is_read(_restrict_design_inputs(system, xs))
    model = CoupledSystem(system)
    couplings = model.couplings()
    spec = {"x": {}, "y": {}}
    for v in system["x"]:
        spec["x"][v["name"]] = {"mu": draw(st.integers(1, 3)), "t": [draw(HALF) * 2 for _ in range(v["size"])]}
    read = [n for n in couplings if draw(st.booleans())] or couplings[:1]
    for n in read:
        w = [draw(st.integers(0, 3)) for _ in range(model.sizes[n])]
        if not any(w):
            w[0] = 1
        spec["y"][n] = {"w": w, "t": [draw(HALF) * 2 for _ in range(model.sizes[n])]}
    bounds, x0 = {}, {}
    for v in system["x"]:
        lo = [draw(st.sampled_from([-3.0, -2.0, -1.0, 0.0])) for _ in range(v["size"])]
        hi = [lo[k] + draw(st.sampled_from([1.0, 2.0, 4.0])) for k in range(v["size"])]
        bounds[v["name"]] = {"lo": lo, "hi": hi}
        x0[v["name"]] = [lo[k] + (hi[k] - lo[k]) * draw(st.sampled_from([0.0, 0.25, 0.5, 1.0])) for k in range(v["size"])]
    constraint = None
    if draw(st.booleans()):
        constraint = {
            "output": draw(st.sampled_from(model.out_names)),
            "frac": {v["name"]: [draw(st.sampled_from([0.25, 0.5, 0.75])) for _ in range(v["size"])] for v in system["x"]},
            "margin": draw(st.sampled_from([0.125, 0.5, 4.0])),
            "positive": draw(st.booleans()),
        }
    return {
        "system": system, "objective": spec, "bounds": bounds, "x0": x0, "constraint": constraint,
        "y_lo": float(draw(st.integers(-120, -100))), "y_hi": float(draw(st.integers(100, 120))),
        "normalize": draw(st.booleans()),
        "mda": dict(draw(st.sampled_from([c for c in MDA_CHOICES if c["main"] == "MDAChain"]))),
        "ds_order": draw(st.permutations(list(range(len(system["x"]) + len(couplings))))),
        "normalize_design_space": draw(st.sampled_from([False, False, True])),
    }
