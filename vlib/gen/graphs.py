"""Graph helpers, harness disciplines and reference models for C08 / C09.

Nothing here uses networkx or any gemseo graph code: the reachability closure, the
strongly connected components, the linear monolithic solve and the forward-mode
derivative accumulation are the *independent* side of the oracles.

Three families of harness disciplines (all with ``SimpleGrammar``):

* ``graph_disciplines``  - grammar-only nodes realising a labelled digraph (C08, graph part);
* ``LinearNode``         - y_o = c_o + sum_u M_ou u, realising the same digraph with linear
                           contractive semantics (C08, composition part);
* ``PolyDiscipline``     - polynomial (degree <= 2) maps with exact partial derivatives returned
                           dense, sparse or as ``JacobianOperator`` (C09).
"""

from __future__ import annotations

import itertools

import numpy as np

# --------------------------------------------------------------------------- pure graph side


def edges_from_code(n: int, code: int) -> list[list[int]]:
    """Bit i*n+j of ``code`` set  <=>  edge i->j (i == j: self-loop); every edge carries mask 1."""
    return [[i, j, 1] for i in range(n) for j in range(n) if (code >> (i * n + j)) & 1]


def nth_permutation(n: int, k: int) -> list[int]:
    """The k-th (mod n!) permutation of range(n) in lexicographic order (factorial number system)."""
    items = list(range(n))
    fact = [1] * (n + 1)
    for i in range(1, n + 1):
        fact[i] = fact[i - 1] * i
    k %= fact[n]
    out = []
    for i in range(n, 0, -1):
        q, k = divmod(k, fact[i - 1])
        out.append(items.pop(q))
    return out


def all_permutations(n: int) -> list[list[int]]:
    return [list(p) for p in itertools.permutations(range(n))]


def closure(n: int, adj: list[list[bool]]) -> list[list[bool]]:
    """Boolean Floyd-Warshall: reach[i][j] <=> a path of length >= 1 from i to j (self-loops ignored)."""
    reach = [[bool(adj[i][j]) and i != j for j in range(n)] for i in range(n)]
    for k in range(n):
        rk = reach[k]
        for i in range(n):
            if reach[i][k]:
                ri = reach[i]
                for j in range(n):
                    if rk[j]:
                        ri[j] = True
    return reach


def components(n: int, reach: list[list[bool]]) -> list[int]:
    """comp[i] = smallest node mutually reachable with i (i itself included)."""
    comp = []
    for i in range(n):
        comp.append(min(j for j in range(n) if j == i or (reach[i][j] and reach[j][i])))
    return comp


class Realisation:
    """A labelled digraph realised through variable names.

    node i outputs ``v{i}`` (and ``w{i}`` when two_out[i]); an edge [i, j, m] makes v{i} (m & 1)
    and/or w{i} (m & 2, falling back to v{i} when i has a single output) an input of j; i == j
    gives a self-loop.  Nodes in ``x_nodes`` read the shared external input ``x``; a node left
    without any input gets a private external input ``p{i}``.
    """

    def __init__(self, n: int, edges, two_out=None, x_nodes=(), opt=None, state=None):
        self.n = n
        # nodes with a state variable s{i} (both an input and an output, declared through residual_to_state_variable with
        # the residual output r{i}): a state variable is not a coupling and makes no self-loop
        self.state = [bool(int(state[i % len(state)])) if state else False for i in range(n)]
        self.two_out = [bool(two_out[i]) if two_out else False for i in range(n)]
        self.outs = [[f"v{i}"] + ([f"w{i}"] if self.two_out[i] else []) for i in range(n)]
        ins: list[list[str]] = [[] for _ in range(n)]
        for i, j, m in edges:
            i, j, m = int(i) % n, int(j) % n, int(m)
            names = []
            if m & 1 or not self.two_out[i]:
                names.append(f"v{i}")
            if m & 2 and self.two_out[i]:
                names.append(f"w{i}")
            for name in names:
                if name not in ins[j]:
                    ins[j].append(name)
        self.external: list[str] = []
        for i in range(n):
            if i in x_nodes:
                ins[i].append("x")
                if "x" not in self.external:
                    self.external.append("x")
        for i in range(n):
            if not ins[i]:
                ins[i].append(f"p{i}")
                self.external.append(f"p{i}")
        self.ins = ins
        # optional inputs: ``opt`` (0/1 flags) is cycled over the (consumer, input name) pairs in node order; a flagged
        # input is NOT required by the consumer's grammar (it has a default value); the graph is the same
        self.optional: set[tuple[int, str]] = set()
        if opt:
            k = 0
            for j in range(n):
                for name in ins[j]:
                    if int(opt[k % len(opt)]):
                        self.optional.add((j, name))
                    k += 1
        self.producer = {name: i for i in range(n) for name in self.outs[i]}
        # adjacency derived from the names (this is the graph the property quantifies over)
        self.adj = [[False] * n for _ in range(n)]
        self.self_loop = [False] * n
        for j in range(n):
            for name in ins[j]:
                i = self.producer.get(name)
                if i is None:
                    continue
                if i == j:
                    self.self_loop[j] = True
                else:
                    self.adj[i][j] = True
        self.reach = closure(n, self.adj)
        self.comp = components(n, self.reach)

    def full_ins(self, i: int) -> list[str]:
        return self.ins[i] + ([f"s{i}"] if self.state[i] else [])

    def full_outs(self, i: int) -> list[str]:
        return self.outs[i] + ([f"s{i}", f"r{i}"] if self.state[i] else [])

    def group_of(self, i: int) -> list[int]:
        return [j for j in range(self.n) if self.comp[j] == self.comp[i]]

    def is_strong(self, i: int) -> bool:
        return self.self_loop[i] or len(self.group_of(i)) > 1

    def consumers(self, name: str) -> list[int]:
        return [j for j in range(self.n) if name in self.ins[j]]

    # ---- coupling sets: (lower bound, upper bound) under every reading of the docstrings
    def strong_couplings_bounds(self):
        """A strong coupling is exchanged between members of one group: consumed inside its producer's own cycle (or by
        its producer itself).  A variable flowing from one cycle to ANOTHER group is a feed-forward coupling."""
        exact = set()
        for name, i in self.producer.items():
            if any(self.comp[j] == self.comp[i] for j in self.consumers(name)):
                exact.add(name)
        # a state variable of a strongly coupled discipline: not a coupling for the reference; tolerated (it is an input
        # and an output of a member of the group)
        return exact, exact | {f"s{i}" for i in range(self.n) if self.state[i] and self.is_strong(i)}

    def weak_couplings_bounds(self):
        low, up = set(), set()
        for name, i in self.producer.items():
            if not self.is_strong(i):
                up.add(name)
                if any(j != i for j in self.consumers(name)):
                    low.add(name)
        for i in range(self.n):
            if self.state[i] and not self.is_strong(i):
                up.update({f"s{i}", f"r{i}"})
        return low, up

    def all_couplings_bounds(self):
        low, up = set(), set()
        for name, i in self.producer.items():
            cons = self.consumers(name)
            if any(j != i for j in cons):
                low.add(name)
            if cons:
                up.add(name)
        up.update(f"s{i}" for i in range(self.n) if self.state[i])
        return low, up


def graph_disciplines(real: Realisation, dup_names: bool = False):
    """Grammar-only disciplines realising ``real`` (never executed)."""
    from gemseo.core.discipline import Discipline

    class _Node(Discipline):
        default_grammar_type = Discipline.GrammarType.SIMPLE
        default_cache_type = Discipline.CacheType.NONE

        def __init__(self, name, node):
            super().__init__(name)
            self.io.input_grammar.update_from_names(real.full_ins(node))
            self.io.output_grammar.update_from_names(real.full_outs(node))
            if real.state[node]:
                self.io.residual_to_state_variable = {f"r{node}": f"s{node}"}
            for name_ in real.ins[node]:
                if (node, name_) in real.optional:
                    self.io.input_grammar.defaults[name_] = np.zeros(1)
                    self.io.input_grammar.required_names.remove(name_)

        def _run(self, input_data):  # pragma: no cover - never executed
            return {}

    return [_Node("D" if dup_names else f"D{i}", i) for i in range(real.n)]


# --------------------------------------------------------------------------- linear semantics (C08)


class LinearSystem:
    """Linear contractive semantics of a realisation.

    Every variable of node i has size sizes[i]; ``x`` has size nx, private inputs size 1.
    o = c_o + sum_{u in ins(node)} M_{o,u} u ; the coupling part of all M is scaled so that the
    block matrix B (outputs x outputs) has infinity norm q < 1, hence I - B is invertible with
    condition number <= (1+q)/(1-q) and every fixed-point sweep contracts.
    """

    def __init__(self, real: Realisation, sizes, coef, q: float, nx: int):
        self.real = real
        n = real.n
        self.size = {}
        for i in range(n):
            for name in real.outs[i]:
                self.size[name] = int(sizes[i])
        for name in real.external:
            self.size[name] = nx if name == "x" else 1
        self.out_names = [name for i in range(n) for name in real.outs[i]]
        self.offset = {}
        pos = 0
        for name in self.out_names:
            self.offset[name] = pos
            pos += self.size[name]
        self.dim = pos
        coef = [int(c) for c in coef] or [1]
        k = 0
        raw: dict[tuple[str, str], np.ndarray] = {}
        self.const = {}
        for i in range(n):
            for o in real.outs[i]:
                for u in real.ins[i]:
                    m = np.zeros((self.size[o], self.size[u]))
                    for a in range(m.shape[0]):
                        for b in range(m.shape[1]):
                            m[a, b] = coef[k % len(coef)]
                            k += 1
                    raw[(o, u)] = m
                c = np.zeros(self.size[o])
                for a in range(c.size):
                    c[a] = coef[k % len(coef)] / 2.0
                    k += 1
                self.const[o] = c
        big = np.zeros((self.dim, self.dim))
        for (o, u), m in raw.items():
            if u in self.offset:
                big[self.offset[o]: self.offset[o] + self.size[o], self.offset[u]: self.offset[u] + self.size[u]] = m
        norm = float(np.max(np.sum(np.abs(big), axis=1))) if self.dim else 0.0
        self.scale = (q / norm) if norm > 0 else 1.0
        self.mat = {key: (m * self.scale if key[1] in self.offset else m) for key, m in raw.items()}
        self.B = big * self.scale

    def solve(self, external: dict[str, np.ndarray]) -> dict[str, np.ndarray]:
        """The whole system evaluated at once: (I - B) y = A ext + c."""
        rhs = np.zeros(self.dim)
        for o in self.out_names:
            sl = slice(self.offset[o], self.offset[o] + self.size[o])
            rhs[sl] += self.const[o]
            i = self.real.producer[o]
            for u in self.real.ins[i]:
                if u not in self.offset:
                    rhs[sl] += self.mat[(o, u)] @ external[u]
        y = np.linalg.solve(np.eye(self.dim) - self.B, rhs)
        return {o: y[self.offset[o]: self.offset[o] + self.size[o]] for o in self.out_names}

    def disciplines(self, dup_names: bool = False, coupling_defaults: bool = True, no_default=()):
        from gemseo.core.discipline import Discipline

        system = self

        class _Linear(Discipline):
            default_grammar_type = Discipline.GrammarType.SIMPLE

            def __init__(self, name, node):
                super().__init__(name)
                self.node = node
                real = system.real
                self.io.input_grammar.update_from_names(real.full_ins(node))
                self.io.output_grammar.update_from_names(real.full_outs(node))
                if real.state[node]:
                    # the state passes through unchanged and its residual is zero: every value of the state is a solution
                    self.io.residual_to_state_variable = {f"r{node}": f"s{node}"}
                    self.io.input_grammar.defaults[f"s{node}"] = np.zeros(1)
                for u in real.ins[node]:
                    if (coupling_defaults or u not in system.offset) and (node, u) not in no_default:
                        self.io.input_grammar.defaults[u] = np.zeros(system.size[u])
                        if (node, u) in real.optional:
                            self.io.input_grammar.required_names.remove(u)
                self.n_runs = 0

            def _run(self, input_data):
                self.n_runs += 1
                real = system.real
                out = {}
                for o in real.outs[self.node]:
                    y = system.const[o].copy()
                    for u in real.ins[self.node]:
                        y = y + system.mat[(o, u)] @ np.asarray(input_data[u], dtype=float)
                    out[o] = y
                if real.state[self.node]:
                    out[f"s{self.node}"] = np.array(input_data[f"s{self.node}"], dtype=float)
                    out[f"r{self.node}"] = np.zeros(1)
                return out

        return [_Linear("D" if dup_names else f"D{i}", i) for i in range(self.real.n)]


# --------------------------------------------------------------------------- polynomial disciplines (C09)


class PolySpec:
    """A polynomial map: named inputs/outputs with sizes and, per output component, terms.

    spec = {"ins": [names], "outs": [names], "terms": {out: [[term, ...] per component]}}
    term = [coef, [in_pos, comp]]                      (linear)
         | [coef, [in_pos, comp], [in_pos, comp]]      (bilinear / square)
         | [coef]                                      (constant)
    ``in_pos`` indexes spec["ins"]; sizes come from the composition.
    """

    def __init__(self, ins, outs, terms, sizes):
        self.ins = list(ins)
        self.outs = list(outs)
        self.terms = terms
        self.sizes = sizes

    def value(self, data) -> dict[str, np.ndarray]:
        out = {}
        for o in self.outs:
            comps = self.terms[o]
            y = np.zeros(len(comps))
            for k, tlist in enumerate(comps):
                acc = 0.0
                for t in tlist:
                    v = float(t[0])
                    for pos, c in t[1:]:
                        v *= float(data[self.ins[pos]][c])
                    acc += v
                y[k] = acc
            out[o] = y
        return out

    def partials(self, data) -> dict[str, dict[str, np.ndarray]]:
        """Exact d out / d in for every (out, in) pair of the map (dense)."""
        jac = {o: {u: np.zeros((len(self.terms[o]), self.sizes[u])) for u in self.ins} for o in self.outs}
        for o in self.outs:
            for k, tlist in enumerate(self.terms[o]):
                for t in tlist:
                    factors = t[1:]
                    for f, (pos, c) in enumerate(factors):
                        v = float(t[0])
                        for g, (pos2, c2) in enumerate(factors):
                            if g != f:
                                v *= float(data[self.ins[pos2]][c2])
                        jac[o][self.ins[pos]][k, c] += v
        return jac


def make_poly_discipline(name: str, spec: PolySpec, jac_kind: str, fill: str):
    """A gemseo Discipline computing ``spec`` with exact partial derivatives.

    jac_kind: "dense" | "sparse" | "operator";  fill: "requested" (only the pairs asked for by
    _compute_jacobian) | "all" (every pair of the discipline).
    """
    from gemseo.core.derivatives.jacobian_operator import JacobianOperator
    from gemseo.core.discipline import Discipline
    from scipy.sparse import csr_array

    class _MatrixOperator(JacobianOperator):
        """A matrix-free view of an exact partial derivative."""

        def __init__(self, matrix):
            super().__init__(matrix.dtype, matrix.shape)
            self._m = matrix

        def _matvec(self, x):
            return self._m @ x

        def _rmatvec(self, x):
            return self._m.T @ x

    class _Poly(Discipline):
        default_grammar_type = Discipline.GrammarType.SIMPLE

        def __init__(self):
            super().__init__(name)
            self.spec = spec
            self.io.input_grammar.update_from_names(spec.ins)
            self.io.output_grammar.update_from_names(spec.outs)
            for u in spec.ins:
                self.io.input_grammar.defaults[u] = np.zeros(spec.sizes[u])
            self.n_runs = 0
            self.n_lin = 0

        def _run(self, input_data):
            self.n_runs += 1
            return spec.value({u: np.asarray(input_data[u], dtype=float) for u in spec.ins})

        def _compute_jacobian(self, input_names=(), output_names=()):
            self.n_lin += 1
            data = {u: np.asarray(self.io.data[u], dtype=float) for u in spec.ins}
            part = spec.partials(data)
            if fill == "all":
                in_sel, out_sel = spec.ins, spec.outs
            else:
                in_sel = [u for u in spec.ins if u in set(input_names)] if input_names else spec.ins
                out_sel = [o for o in spec.outs if o in set(output_names)] if output_names else spec.outs
            init = self.InitJacobianType.SPARSE if jac_kind == "sparse" else self.InitJacobianType.DENSE
            self._init_jacobian(in_sel, out_sel, init_type=init)
            for o in out_sel:
                for u in in_sel:
                    m = part[o][u]
                    if jac_kind == "sparse":
                        self.jac[o][u] = csr_array(m)
                    elif jac_kind == "operator":
                        self.jac[o][u] = _MatrixOperator(m)
                    else:
                        self.jac[o][u] = m.copy()

    return _Poly()


def to_dense(block):
    """Dense ndarray of a returned Jacobian block (ndarray, scipy sparse or JacobianOperator)."""
    if isinstance(block, np.ndarray):
        return block
    if hasattr(block, "toarray"):
        return np.asarray(block.toarray())
    if hasattr(block, "get_matrix_representation"):
        return np.asarray(block.get_matrix_representation())
    return np.asarray(block)


class Tangent:
    """Forward-mode environment: name -> (value, {chain_input: d value / d chain_input})."""

    def __init__(self, inputs: dict[str, np.ndarray]):
        self.inputs = list(inputs)
        self.sizes = {u: int(np.asarray(v).size) for u, v in inputs.items()}
        self.val = {u: np.asarray(v, dtype=float).copy() for u, v in inputs.items()}
        self.tan = {u: {w: (np.eye(self.sizes[u]) if w == u else np.zeros((self.sizes[u], self.sizes[w]))) for w in self.inputs}
                    for u in self.inputs}

    def snapshot(self):
        return dict(self.val), {k: dict(v) for k, v in self.tan.items()}

    def apply(self, spec: PolySpec, env=None):
        """Value and tangent of the outputs of ``spec`` read from ``env`` (default: current state)."""
        val, tan = env if env is not None else (self.val, self.tan)
        data = {u: val[u] for u in spec.ins}
        out = spec.value(data)
        part = spec.partials(data)
        new_tan = {}
        for o in spec.outs:
            new_tan[o] = {}
            for w in self.inputs:
                acc = np.zeros((out[o].size, self.sizes[w]))
                for u in spec.ins:
                    acc = acc + part[o][u] @ tan[u][w]
                new_tan[o][w] = acc
        return out, new_tan

    def commit(self, out, new_tan):
        for o, v in out.items():
            self.val[o] = v
            self.tan[o] = new_tan[o]
