"""Shared generators: design spaces, design points and polynomial functions.

Everything drawn by Hypothesis is a *spec* (plain JSON primitives).  Builders turn a spec
into the real gemseo object; the ``SpaceModel`` / ``PolyFunction`` classes are the
independent numpy reference of the same spec (no gemseo code is used by them).

    space_specs(...)            strategy -> design-space spec
    build_design_space(spec)    -> gemseo DesignSpace
    SpaceModel(spec)            reference affine maps (normalise / unnormalise / round)
    point_specs(space_spec)     strategy -> point spec (levels, not floats: every point is valid)
    SpaceModel.realise(point)   -> (normalised input vector, physical input vector)
    function_specs(n_in, ...)   strategy -> polynomial function spec
    PolyFunction(spec, n_in)    reference value / Jacobian, logging callables, gemseo wrapper

All bounds, coordinates and coefficients are small dyadic numbers (or 3, 5 times such), so
that the affine maps and the polynomials are evaluated exactly in double precision almost
everywhere; the few inexact operations (multiplication by 1/(ub-lb) for widths 3, 5, 6, 0.75)
are performed by the reference with the same IEEE operations as the documented formula.
"""

from __future__ import annotations

import numpy as np
from hypothesis import strategies as st

# --------------------------------------------------------------------------- design spaces
NAMES = ["x", "y", "z", "xy", "n", "k", "ab", "var"]
FLOAT_LB = [-4.0, -2.0, -1.0, -0.5, 0.0, 0.25, 1.0, 2.5]
FLOAT_WIDTH = [0.5, 2.0, 3.0, 4.0, 5.0, 0.75, 8.0, 1.0]  # [0, 1] is the rare case
INT_LB = [-3, -2, -1, 0, 1, 2]
INT_WIDTH = [1, 2, 3, 4, 6]
BOUND_KINDS = ["both", "both", "both", "equal", "lower", "upper", "none"]


@st.composite
def space_specs(draw, max_vars: int = 3, max_size: int = 3, allow_integer: bool = True, allow_int_norm: bool = True):
    """A design space: 1-max_vars variables of size 1-max_size, float or integer.

    Per component the bounds are both finite (lb < ub), equal, one-sided or absent; the
    bounds of integer variables are integers.  ``value`` is a point spec component list
    (see ``point_specs``) or None when the variable has no current value.
    """
    n_vars = draw(st.integers(1, max_vars))
    names = draw(st.lists(st.sampled_from(NAMES), min_size=n_vars, max_size=n_vars, unique=True))
    variables = []
    for name in names:
        size = draw(st.integers(1, max_size))
        is_int = allow_integer and draw(st.integers(0, 2)) == 0
        comps = []
        for _ in range(size):
            kind = draw(st.sampled_from(BOUND_KINDS))
            if is_int:
                lb = draw(st.sampled_from(INT_LB))
                width = draw(st.sampled_from(INT_WIDTH))
            else:
                lb = draw(st.sampled_from(FLOAT_LB))
                width = draw(st.sampled_from(FLOAT_WIDTH))
            ub = lb + width
            if kind == "equal":
                ub = lb
            elif kind == "lower":
                ub = None
            elif kind == "upper":
                lb = None
            elif kind == "none":
                lb = ub = None
            comps.append([lb, ub])
        has_value = draw(st.integers(0, 3)) > 0
        value = [_draw_comp_point(draw) for _ in range(size)] if has_value else None
        variables.append({"name": name, "type": "integer" if is_int else "float", "comps": comps, "value": value})
    int_norm = allow_int_norm and allow_integer and draw(st.integers(0, 4)) == 0
    return {"vars": variables, "int_norm": int_norm}


def _draw_comp_point(draw):
    """One component of a point: a level 0-8 and a fractional offset selector 0-4."""
    return [draw(st.integers(0, 8)), draw(st.sampled_from([0, 0, 1, 2, 3, 4]))]


def space_dimension(space_spec) -> int:
    return sum(len(v["comps"]) for v in space_spec["vars"])


@st.composite
def point_specs(draw, space_spec):
    """A design point as [[level, frac], ...] per component (always realisable inside the bounds)."""
    return [_draw_comp_point(draw) for _ in range(space_dimension(space_spec))]


FRACS = [0.0, 0.25, -0.25, 0.375, -0.125]  # never a tie (x.5): the rounding rule of ties is not specified


class SpaceModel:
    """Numpy reference of a design-space spec (flattened component arrays)."""

    def __init__(self, spec):
        self.spec = spec
        lb, ub, is_int, names = [], [], [], []
        for var in spec["vars"]:
            for k, (lo, up) in enumerate(var["comps"]):
                lb.append(-np.inf if lo is None else float(lo))
                ub.append(np.inf if up is None else float(up))
                is_int.append(var["type"] == "integer")
                names.append(f"{var['name']}[{k}]")
        self.lb = np.array(lb)
        self.ub = np.array(ub)
        self.is_int = np.array(is_int, dtype=bool)
        self.comp_names = names
        self.dim = len(lb)
        finite = np.isfinite(self.lb) & np.isfinite(self.ub)
        # documented policy: bounded float components are normalised; integer ones only when enabled
        self.norm_mask = finite & (~self.is_int | bool(spec["int_norm"]))
        self.width = np.where(self.norm_mask, self.ub - self.lb, 1.0)
        self.equal = self.norm_mask & (self.width == 0.0)
        self.has_integer = bool(self.is_int.any())
        self.has_equal_bounds = bool((finite & (self.ub == self.lb)).any())
        # a component that is really rescaled by the normalisation
        self.rescaled = self.norm_mask & ~self.equal & ((self.lb != 0.0) | (self.width != 1.0))

    # ----- the documented maps, same IEEE operations as x_n = (x - lb) / (ub - lb), x = x_n (ub - lb) + lb
    def scale(self) -> np.ndarray:
        """d(physical)/d(normalised) per component: ub-lb where normalised (0 if lb==ub), 1 elsewhere."""
        return np.where(self.norm_mask, self.width, 1.0)

    def to_phys(self, xn, round_ints: bool = True) -> np.ndarray:
        xn = np.asarray(xn, dtype=float)
        out = xn.copy()
        m = self.norm_mask
        out[m] = xn[m] * self.width[m] + self.lb[m]
        return self.round(out) if round_ints else out

    def to_norm(self, x) -> np.ndarray:
        x = np.asarray(x, dtype=float)
        out = x.copy()
        m = self.norm_mask
        inv = 1.0 / np.where(self.width[m] == 0.0, 1.0, self.width[m])
        out[m] = (x[m] - self.lb[m]) * inv
        return out

    def round(self, x) -> np.ndarray:
        out = np.asarray(x, dtype=float).copy()
        out[self.is_int] = np.round(out[self.is_int])
        return out

    # ----- points
    def realise(self, point, allow_frac: bool):
        """Return (xn, x): the normalised and the physical form of a point spec.

        Both are valid inputs: xn in [0, 1] on normalised components, x inside the bounds.
        Integer components are integral unless ``allow_frac`` (then within the bounds, never a tie).
        For components that are not normalised xn[i] == x[i].
        """
        xn = np.zeros(self.dim)
        x = np.zeros(self.dim)
        for i, (level, frac_id) in enumerate(point):
            lb, ub = self.lb[i], self.ub[i]
            frac = FRACS[frac_id % len(FRACS)]
            if self.is_int[i]:
                if np.isfinite(lb) and np.isfinite(ub):
                    n = lb + (level % (int(ub - lb) + 1))
                elif np.isfinite(lb):
                    n = lb + level
                elif np.isfinite(ub):
                    n = ub - level
                else:
                    n = float(level - 4)
                if self.norm_mask[i]:
                    xn[i], x[i] = self._normalised_integer(lb, ub, n, level, allow_frac)
                else:
                    xn[i] = x[i] = n
                    if allow_frac and frac != 0.0 and lb <= n + frac <= ub and not -0.5 < n + frac < 0.0:
                        xn[i] = x[i] = n + frac
            elif self.norm_mask[i]:
                t = level / 8.0
                xn[i] = t  # inert when lb == ub
                x[i] = t * self.width[i] + lb
            else:
                if np.isfinite(lb):
                    v = lb + 0.5 * level
                elif np.isfinite(ub):
                    v = ub - 0.25 * level
                else:
                    v = 0.75 * (level - 4)
                xn[i] = x[i] = v
        return xn, x

    @staticmethod
    def _normalised_integer(lb, ub, n, level, allow_frac):
        """(xn, x) of an integer component that is normalised (integer normalisation enabled).

        Candidates whose rounded image is -0.0 through either entrance (x_n -> x, or
        x -> x_n -> x) are skipped: byte-hashed database keys tell -0.0 from 0.0 and the
        property does not say which behaviour is right.
        """
        w = ub - lb
        if w == 0:
            return level / 8.0, lb
        inv = 1.0 / w
        candidates = []
        if allow_frac:
            t = level / 8.0
            pre = t * w + lb
            if abs(pre - np.floor(pre) - 0.5) < 1e-9:  # tie: move off it, stay in [0, 1]
                t = t + 1.0 / 32.0 if t < 1.0 else t - 1.0 / 32.0
            candidates.append((t, t * w + lb))
        for m in (n, n + 1, n - 1, n + 2, n - 2):
            if lb <= m <= ub:
                candidates.append(((m - lb) * inv, float(m)))

        def negative_zero(v):
            r = np.round(v)
            return r == 0.0 and np.signbit(r)

        for t, v in candidates:
            if not negative_zero(t * w + lb) and not negative_zero(((v - lb) * inv) * w + lb):
                return t, v
        return candidates[-1]

    def current_value(self):
        """{name: array} of the current values given by the spec (integral for integer variables)."""
        out, i = {}, 0
        for var in self.spec["vars"]:
            size = len(var["comps"])
            if var["value"] is not None:
                full = [[0, 0]] * self.dim
                full[i : i + size] = var["value"]
                _, x = self.realise(full, allow_frac=False)
                out[var["name"]] = x[i : i + size].copy()
            i += size
        return out

    def common_dtype_kind(self) -> str:
        """'i' when gemseo would handle points as int64 (all variables integer, all with a value), else 'f'."""
        variables = self.spec["vars"]
        if all(v["value"] is not None for v in variables) and all(v["type"] == "integer" for v in variables):
            return "i"
        return "f"


def build_design_space(spec):
    """The gemseo DesignSpace of a spec (a fresh object per call)."""
    from gemseo.algos.design_space import DesignSpace

    model = SpaceModel(spec)
    values = model.current_value()
    ds = DesignSpace()
    for var in spec["vars"]:
        size = len(var["comps"])
        lb = np.array([-np.inf if lo is None else lo for lo, _ in var["comps"]], dtype=float)
        ub = np.array([np.inf if up is None else up for _, up in var["comps"]], dtype=float)
        value = values.get(var["name"])
        if value is not None and var["type"] == "integer":
            value = value.astype(np.int64)
        ds.add_variable(var["name"], size=size, type_=var["type"], lower_bound=lb, upper_bound=ub, value=value)
    if spec["int_norm"]:
        ds.enable_integer_variables_normalization = True
    return ds


# --------------------------------------------------------------------------- polynomial functions
COEFS = [-2.0, -1.0, -0.5, 0.25, 0.5, 1.0, 1.5, 2.0]


@st.composite
def function_specs(draw, n_in: int, name: str, kinds=("quad", "quad", "affine", "mdo_linear"), max_dim: int = 3):
    """f_k(x) = c_k + sum_j B_kj x_j + sum_(i<=j) A_kij x_i x_j  with dyadic coefficients.

    kind 'quad'/'affine' -> MDOFunction around logging python callables; 'mdo_linear' -> a
    logging MDOLinearFunction (A empty).  The Jacobian is returned dense or as scipy csr_array;
    a scalar function returns a float or a size-1 array and a 1-D or (1, n) gradient.
    """
    kind = draw(st.sampled_from(list(kinds)))
    dim = draw(st.integers(1, max_dim))
    c = [draw(st.sampled_from([0.0, 0.5, -1.0, 2.0])) for _ in range(dim)]
    density = draw(st.sampled_from([0.4, 0.7, 1.0]))
    B = []
    for _ in range(dim):
        row = []
        for _ in range(n_in):
            keep = draw(st.floats(0, 1, allow_nan=False)) < density
            row.append(draw(st.sampled_from(COEFS)) if keep else 0.0)
        B.append(row)
    A = []
    if kind == "quad":
        n_terms = draw(st.integers(1, min(4, n_in * (n_in + 1) // 2 * dim)))
        seen = set()
        for _ in range(n_terms):
            k = draw(st.integers(0, dim - 1))
            i = draw(st.integers(0, n_in - 1))
            j = draw(st.integers(i, n_in - 1))
            if (k, i, j) not in seen:
                seen.add((k, i, j))
                A.append([k, i, j, draw(st.sampled_from(COEFS))])
    return {
        "name": name, "kind": kind, "dim": dim, "c": c, "B": B, "A": A,
        "jac": draw(st.sampled_from(["dense", "dense", "sparse"])),
        "scalar_as": draw(st.sampled_from(["float", "array"])),
        "grad_1d": draw(st.booleans()),
    }


class PolyFunction:
    """Reference polynomial, its logging callables and its gemseo wrapper."""

    def __init__(self, spec, n_in: int):
        self.spec = spec
        self.name = spec["name"]
        self.dim = int(spec["dim"])
        self.n_in = n_in
        self.c = np.array(spec["c"], dtype=float)
        self.B = np.array(spec["B"], dtype=float).reshape(self.dim, n_in)
        self.A = [(int(k), int(i), int(j), float(a)) for k, i, j, a in spec["A"]]
        self.sparse = spec["jac"] == "sparse"
        self.is_mdo_linear = spec["kind"] == "mdo_linear"
        self.log: list[tuple[str, np.ndarray]] = []  # ("f" | "j", copy of the argument)

    # ----- pure reference (works for complex x: complex-step perturbations)
    def value(self, x) -> np.ndarray:
        x = np.asarray(x)
        out = self.c + self.B @ x
        for k, i, j, a in self.A:
            out[k] = out[k] + a * x[i] * x[j]
        return out

    def jacobian(self, x) -> np.ndarray:
        x = np.asarray(x)
        jac = self.B.astype(x.dtype if x.dtype.kind == "c" else float)
        for k, i, j, a in self.A:
            jac[k, i] += a * x[j]
            jac[k, j] += a * x[i]
        return jac

    def magnitude(self, x, extra=None) -> float:
        """Sum of the absolute values of all the terms (scale of the rounding error of value())."""
        ax = np.abs(np.asarray(x, dtype=float))
        if extra is not None:
            ax = ax + extra
        m = np.abs(self.c) + np.abs(self.B) @ ax
        for k, i, j, a in self.A:
            m[k] += abs(a) * ax[i] * ax[j]
        return float(m.max())

    def second_derivative_bound(self) -> np.ndarray:
        """max_k |d2 f_k / dx_i^2| per input component (exact truncation constant of one-sided differences)."""
        h = np.zeros(self.n_in)
        for i in range(self.n_in):
            per_out = np.zeros(self.dim)
            for k, i1, j1, a in self.A:
                if i1 == i and j1 == i:
                    per_out[k] += 2.0 * abs(a)
            h[i] = per_out.max()
        return h

    # ----- the user's callables
    def _format_value(self, v):
        if self.dim == 1:
            return v[0] if self.spec["scalar_as"] == "float" else v.copy()
        return v

    def _format_jac(self, jac):
        if self.sparse:
            from scipy.sparse import csr_array

            return csr_array(jac)
        if self.dim == 1 and self.spec["grad_1d"]:
            return jac[0].copy()
        return jac

    def func(self, x):
        self.log.append(("f", np.array(x)))
        return self._format_value(self.value(x))

    def jac(self, x):
        self.log.append(("j", np.array(x)))
        return self._format_jac(self.jacobian(x))

    def expected_jac_shape(self, densified: bool) -> tuple:
        if self.sparse and not densified:
            return (self.dim, self.n_in)
        if self.is_mdo_linear:
            return (self.n_in,) if (self.dim == 1 and not self.sparse) else (self.dim, self.n_in)
        if not self.sparse and self.dim == 1 and self.spec["grad_1d"]:
            return (self.n_in,)
        return (self.dim, self.n_in)

    # ----- gemseo object
    def to_gemseo(self):
        """MDOFunction (or logging MDOLinearFunction) computing this polynomial."""
        if self.is_mdo_linear:
            return _logging_linear_function(self)
        from gemseo.core.mdo_functions.mdo_function import MDOFunction

        return MDOFunction(self.func, self.name, jac=self.jac, dim=self.dim)


def _logging_linear_function(poly: PolyFunction):
    from gemseo.core.mdo_functions.mdo_linear_function import MDOLinearFunction

    class LoggingLinearFunction(MDOLinearFunction):
        """MDOLinearFunction whose own evaluations are logged in the PolyFunction."""

        def _func_to_wrap(self, x_vect):
            poly.log.append(("f", np.array(x_vect)))
            return super()._func_to_wrap(x_vect)

        def _jac_to_wrap(self, x_vect):
            poly.log.append(("j", np.array(x_vect)))
            return super()._jac_to_wrap(x_vect)

    coefficients = poly.B.copy()
    if poly.sparse:
        from scipy.sparse import csr_array

        coefficients = csr_array(coefficients)
    value_at_zero = poly.c.copy() if poly.dim > 1 else float(poly.c[0])
    return LoggingLinearFunction(coefficients, poly.name, value_at_zero=value_at_zero)


def as_dense(value) -> np.ndarray:
    """Dense ndarray of a dense or scipy-sparse value."""
    if hasattr(value, "toarray"):
        return np.asarray(value.toarray())
    return np.asarray(value)
