"""Recipe table: small JSON argument recipes -> real gemseo objects (used by C20).

Every entry of :data:`RECIPES` instantiates one (family of) class(es) of the
``DisciplineFactory`` / ``MDAFactory`` (or a scenario, function, space, problem) *offline* from a
dict of JSON primitives drawn by Hypothesis.  Nothing here is an oracle: the module only knows
how to build valid objects and valid input points for them.

    recipe.args        Hypothesis strategy of the argument dict (JSON primitives only)
    recipe.build(a)    the object (built under the grammar type selected by ``grammar_type()``)
    recipe.grammars    grammar types the classes of the recipe can be built with
    recipe.base(o, a)  a valid base input point {name: float array}; generated inputs are
                       ``base * (1 + radius * u)`` (``base + radius * u`` where base == 0)
    recipe.radius      relative size of the perturbation that keeps the point in the valid domain

Everything that ends up inside a pickled object (python callables of AutoPyDiscipline,
MDOFunction, ...) is defined at module level here so that ``pickle`` can find it by reference.
"""

from __future__ import annotations

import contextlib
from dataclasses import dataclass
from dataclasses import field
from typing import Any
from typing import Callable

import numpy as np
from hypothesis import strategies as st

GRAMMARS = ("JSON", "Simple", "Pydantic")
_GT = {"JSON": "JSONGrammar", "Simple": "SimpleGrammar", "Pydantic": "PydanticGrammar", "Simpler": "SimplerGrammar"}


# ======================================================================================
# grammar type switch
# ======================================================================================
@contextlib.contextmanager
def grammar_type(gtype: str | None, classes):
    """Temporarily set ``default_grammar_type`` of the given classes (restored on exit).

    ``default_grammar_type`` is a class attribute read by ``BaseDiscipline.__init__`` only: the
    grammars of an instance keep their type afterwards (and through pickling).
    """
    if gtype is None:
        yield
        return
    from gemseo.core.grammars.factory import GrammarType

    value = GrammarType(_GT[gtype])
    saved = []
    try:
        for cls in classes:
            own = "default_grammar_type" in cls.__dict__
            saved.append((cls, own, cls.__dict__.get("default_grammar_type")))
            cls.default_grammar_type = value
        yield
    finally:
        for cls, own, old in reversed(saved):
            if own:
                cls.default_grammar_type = old
            else:
                with contextlib.suppress(AttributeError):
                    delattr(cls, "default_grammar_type")


# ======================================================================================
# module-level python callables (picklable by reference)
# ======================================================================================
def py_affine(x=0.0, y=1.0):
    """AutoPyDiscipline body with scalar arguments."""
    z = 2.0 * x + 3.0 * y - 1.0
    w = x - y
    return z, w


def py_affine_jac(x=0.0, y=1.0):
    return np.array([[2.0, 3.0], [1.0, -1.0]])


def py_product(a=1.0, b=2.0):
    c = a * b + a
    return c


def py_product_jac(a=1.0, b=2.0):
    a = np.asarray(a).reshape(-1)[0]
    b = np.asarray(b).reshape(-1)[0]
    return np.array([[b + 1.0, a]])


def py_arrays(u, v):
    """AutoPyDiscipline body with array arguments (use_arrays=True)."""
    s = u * v + 2.0 * u
    return s


def py_arrays_jac(u, v):
    return np.hstack([np.diag(v + 2.0), np.diag(u)])


class DeliberateFailure(ValueError):
    """Raised on purpose by a harness callable wrapped in a discipline (not a harness fault)."""


def py_guarded(a=1.0):
    """AutoPyDiscipline body that rejects half of its domain (leaves the discipline in status FAILED)."""
    if a >= 1.0:
        raise DeliberateFailure("a must be lower than 1")
    b = 2.0 * a + 1.0
    return b


def arr_fun(x):
    """ArrayBasedFunctionDiscipline: R^3 -> R^2."""
    return np.array([x[0] * x[1] + x[2], x[0] - 2.0 * x[2] ** 2])


def arr_jac(x):
    return np.array([[x[1], x[0], 1.0], [1.0, 0.0, -4.0 * x[2]]])


class QuadForm:
    """Picklable callable object  f(x) = c + b.x + 0.5 x'Ax  (used for MDOFunction)."""

    def __init__(self, c, b, a):
        self.c = float(c)
        self.b = np.asarray(b, dtype=float)
        self.a = np.asarray(a, dtype=float)

    def __call__(self, x):
        x = np.asarray(x)
        return self.c + self.b @ x + 0.5 * x @ (self.a @ x)


class QuadFormJac(QuadForm):
    def __call__(self, x):
        x = np.asarray(x)
        return self.b + 0.5 * (self.a + self.a.T) @ x


class VecForm:
    """Picklable vector function g(x) = M x + sin(x[0]) * d."""

    def __init__(self, m, d):
        self.m = np.asarray(m, dtype=float)
        self.d = np.asarray(d, dtype=float)

    def __call__(self, x):
        x = np.asarray(x)
        return self.m @ x + np.sin(x[0]) * self.d


class VecFormJac(VecForm):
    def __call__(self, x):
        x = np.asarray(x)
        j = self.m.copy().astype(x.dtype if np.iscomplexobj(x) else float)
        j[:, 0] += np.cos(x[0]) * self.d
        return j


# ======================================================================================
# the recipe record
# ======================================================================================
@dataclass
class Recipe:
    name: str
    kind: str  # discipline | mda | scenario | function | space | problem
    classes: tuple  # names of the factory classes this recipe instantiates
    args: Any  # hypothesis strategy
    build: Callable[[dict], Any]
    grammars: tuple = ("JSON",)
    base: Callable[[Any, dict], dict] | None = None
    radius: float = 0.3
    linearizable: bool = True
    gclasses: Callable[[], tuple] | None = None  # classes whose default grammar type is switched
    approx: bool = False  # no analytic Jacobian: linearise by finite differences
    needs_fd: Callable[[dict], bool] | None = None  # argument-dependent variant of ``approx``
    weight: int = 1
    stateful: bool = False  # results depend on the history of calls (warm starts, residual scaling, ...)
    notes: str = ""
    extra: dict = field(default_factory=dict)


RECIPES: dict[str, Recipe] = {}
SKIPPED: dict[str, str] = {
    "DiscFromExe": "wraps an external executable driven by template files",
    "JobSchedulerDisciplineWrapper": "submits jobs to an HPC job scheduler (sbatch)",
    "LSF": "submits jobs to the LSF job scheduler (bsub)",
    "SLURM": "submits jobs to the SLURM job scheduler (sbatch)",
    "XLSDiscipline": "needs Microsoft Excel through xlwings",
}


def reg(recipe: Recipe) -> Recipe:
    if recipe.name in RECIPES:
        raise ValueError(recipe.name)
    RECIPES[recipe.name] = recipe
    return recipe


def default_base(obj, args) -> dict:
    """The default inputs: arrays are copied (and perturbed later), other values are kept as they are."""
    out = {}
    for k, v in obj.io.input_grammar.defaults.items():
        out[k] = np.array(v, copy=True) if isinstance(v, np.ndarray) else v
    return out


def make_inputs(base: dict, radius: float, u: list) -> dict:
    """Generated input point: perturb the base point component-wise with the drawn ``u`` in [-1, 1]."""
    out = {}
    k = 0
    for name in base:
        if not isinstance(base[name], np.ndarray):
            out[name] = base[name]  # e.g. an integer option: not perturbed
            continue
        b = np.atleast_1d(base[name])
        if b.dtype.kind not in "fc":
            b = b.astype(float)
        v = b.copy()
        flat = v.reshape(-1)
        for i in range(flat.size):
            ui = float(u[k % len(u)]) if u else 0.0
            k += 1
            flat[i] = flat[i] * (1.0 + radius * ui) if flat[i] != 0 else radius * ui
        out[name] = v
    return out


# ======================================================================================
# elementary disciplines
# ======================================================================================
EXPRS = [
    ("y", "2*x+z**2"),
    ("y", "x*z - 3"),
    ("w", "sin(x)+cos(z)*v"),
    ("w", "exp(x/4)"),
    ("t", "x**3-v"),
    ("t", "sqrt(z**2+1)"),
    ("s", "v"),
    ("s", "2.5"),
    # several input symbols, not symmetric in any pair of them (argument order matters)
    ("m", "a*b - c/(d+3) + e**2*f"),
    ("q", "x - 2*v + 3*z*a - b**2"),
]
NAMES = ["", "D", "my disc", "dd"]


def _b_analytic(a):
    from gemseo.disciplines.analytic import AnalyticDiscipline

    exprs = {}
    for i in a["e"]:
        o, e = EXPRS[i % len(EXPRS)]
        exprs[o] = e
    return AnalyticDiscipline(exprs, name=NAMES[a["name"] % len(NAMES)])


def _gc(*paths):
    def get():
        import importlib

        out = []
        for p in paths:
            mod, cls = p.rsplit(".", 1)
            out.append(getattr(importlib.import_module(mod), cls))
        return tuple(out)

    return get


reg(Recipe(
    "AnalyticDiscipline", "discipline", ("AnalyticDiscipline",),
    st.fixed_dictionaries({"e": st.lists(st.integers(0, len(EXPRS) - 1), min_size=1, max_size=3), "name": st.integers(0, 3)}),
    _b_analytic, grammars=GRAMMARS, radius=1.0, weight=3,
    gclasses=_gc("gemseo.disciplines.analytic.AnalyticDiscipline"),
))


def _b_lincomb(a):
    from gemseo.disciplines.linear_combination import LinearCombination

    names = ["a", "bb", "c_3"][: a["n"]]
    coeffs = {n: float(c) for n, c in zip(names, a["coef"])} if a["with_coef"] else None
    return LinearCombination(names, "out", input_coefficients=coeffs, offset=float(a["offset"]), input_size=a["size"])


reg(Recipe(
    "LinearCombination", "discipline", ("LinearCombination",),
    st.fixed_dictionaries({
        "n": st.integers(1, 3), "coef": st.lists(st.integers(-3, 3), min_size=3, max_size=3), "with_coef": st.booleans(),
        "offset": st.integers(-2, 2), "size": st.one_of(st.none(), st.integers(1, 3)),
    }),
    _b_lincomb, grammars=GRAMMARS, radius=1.0, weight=2,
    base=lambda o, a: {n: np.zeros(a["size"] or 1) for n in ["a", "bb", "c_3"][: a["n"]]},
    gclasses=_gc("gemseo.disciplines.linear_combination.LinearCombination"),
))


def _b_concat(a):
    from gemseo.disciplines.concatenater import Concatenater

    names = ["c_1", "c_2", "c_3"][: a["n"]]
    coeffs = {n: float(c) for n, c in zip(names, a["coef"])} if a["with_coef"] else None
    return Concatenater(names, "c", input_coefficients=coeffs)


reg(Recipe(
    "Concatenater", "discipline", ("Concatenater",),
    st.fixed_dictionaries({
        "n": st.integers(1, 3), "sizes": st.lists(st.integers(1, 3), min_size=3, max_size=3),
        "coef": st.lists(st.sampled_from([-2, -1, 1, 2, 3]), min_size=3, max_size=3), "with_coef": st.booleans(),
    }),
    _b_concat, grammars=GRAMMARS, radius=1.0,
    base=lambda o, a: {n: np.arange(1.0, s + 1.0) for n, s in zip(["c_1", "c_2", "c_3"][: a["n"]], a["sizes"])},
    gclasses=_gc("gemseo.disciplines.concatenater.Concatenater"),
))


def _b_splitter(a):
    from gemseo.disciplines.splitter import Splitter

    size = a["size"]
    mapping = {}
    for k, idx in enumerate(a["idx"]):
        ids = sorted({i % size for i in idx})
        mapping[f"o{k}"] = ids[0] if (len(ids) == 1 and a["scalar_index"]) else ids
    return Splitter("alpha", mapping)


reg(Recipe(
    "Splitter", "discipline", ("Splitter",),
    st.fixed_dictionaries({
        "size": st.integers(2, 5), "scalar_index": st.booleans(),
        "idx": st.lists(st.lists(st.integers(0, 4), min_size=1, max_size=3), min_size=1, max_size=3),
    }),
    _b_splitter, grammars=GRAMMARS, radius=1.0,
    base=lambda o, a: {"alpha": np.arange(1.0, a["size"] + 1.0)},
    gclasses=_gc("gemseo.disciplines.splitter.Splitter"),
))


def _b_autopy(a):
    from gemseo.disciplines.auto_py import AutoPyDiscipline

    which = a["f"] % 3
    if which == 0:
        return AutoPyDiscipline(py_affine, py_jac=py_affine_jac if a["jac"] else None, name=NAMES[a["name"] % 4])
    if which == 1:
        return AutoPyDiscipline(py_product, py_jac=py_product_jac if a["jac"] else None, name=NAMES[a["name"] % 4])
    return AutoPyDiscipline(py_arrays, py_jac=py_arrays_jac if a["jac"] else None, use_arrays=True)


def _base_autopy(o, a):
    if a["f"] % 3 == 2:
        return {"u": np.array([1.0, -2.0]), "v": np.array([0.5, 3.0])}
    return default_base(o, a)


reg(Recipe(
    "AutoPyDiscipline", "discipline", ("AutoPyDiscipline",),
    st.fixed_dictionaries({"f": st.integers(0, 2), "jac": st.booleans(), "name": st.integers(0, 3)}),
    _b_autopy, grammars=GRAMMARS, radius=1.0, base=_base_autopy, weight=2, needs_fd=lambda a: not a["jac"],
    gclasses=_gc("gemseo.disciplines.auto_py.AutoPyDiscipline"),
    notes="without py_jac the Jacobian is approximated by finite differences",
))


def _b_autopy_guarded(a):
    from gemseo.disciplines.auto_py import AutoPyDiscipline

    return AutoPyDiscipline(py_guarded, name="guarded" if a["named"] else "")


reg(Recipe(
    "AutoPyDisciplineFailing", "discipline", ("AutoPyDiscipline",), st.fixed_dictionaries({"named": st.booleans()}),
    _b_autopy_guarded, grammars=GRAMMARS, radius=1.0, needs_fd=lambda a: True, stateful=True,
    gclasses=_gc("gemseo.disciplines.auto_py.AutoPyDiscipline"),
    notes="the wrapped function raises for a >= 1 (half of the generated points): life moment 'after a failed execution' (status FAILED)",
))


def _b_arraybased(a):
    from gemseo.disciplines.array_based_function import ArrayBasedFunctionDiscipline

    return ArrayBasedFunctionDiscipline(
        arr_fun, {"p": 1, "q": 2}, {"r": 1, "s": 1}, jac_function=arr_jac if a["jac"] else None
    )


reg(Recipe(
    "ArrayBasedFunctionDiscipline", "discipline", ("ArrayBasedFunctionDiscipline",),
    st.fixed_dictionaries({"jac": st.booleans()}),
    _b_arraybased, grammars=GRAMMARS, radius=1.0, needs_fd=lambda a: not a["jac"],
    base=lambda o, a: {"p": np.array([1.0]), "q": np.array([2.0, -1.0])},
    gclasses=_gc("gemseo.disciplines.array_based_function.ArrayBasedFunctionDiscipline"),
))


def _b_sellar(a):
    from gemseo.problems.mdo.sellar.sellar_1 import Sellar1
    from gemseo.problems.mdo.sellar.sellar_2 import Sellar2
    from gemseo.problems.mdo.sellar.sellar_system import SellarSystem

    w = a["which"] % 3
    if w == 0:
        return Sellar1(n=a["n"], k=float(a["k"]))
    if w == 1:
        return Sellar2(n=a["n"], k=float(a["k"]))
    return SellarSystem(n=a["n"])


_SELLAR_G = _gc(
    "gemseo.problems.mdo.sellar.sellar_1.Sellar1", "gemseo.problems.mdo.sellar.sellar_2.Sellar2",
    "gemseo.problems.mdo.sellar.sellar_system.SellarSystem",
)
reg(Recipe(
    "Sellar", "discipline", ("Sellar1", "Sellar2", "SellarSystem"),
    st.fixed_dictionaries({"which": st.integers(0, 2), "n": st.integers(1, 3), "k": st.sampled_from([1, 1, 2])}),
    _b_sellar, grammars=GRAMMARS, radius=0.2, weight=3, gclasses=_SELLAR_G,
))


def _sob_dtype(a):
    from gemseo.problems.mdo.sobieski.core.problem import SobieskiProblem  # noqa: F401
    from gemseo.problems.mdo.sobieski.core.utils import SobieskiBase

    return SobieskiBase.DataType.COMPLEX if a.get("complex") else SobieskiBase.DataType.FLOAT


_SOB = ["SobieskiStructure", "SobieskiAerodynamics", "SobieskiPropulsion", "SobieskiMission"]


def _b_sobieski(a):
    import gemseo.problems.mdo.sobieski.disciplines as m

    cls = getattr(m, _SOB[a["which"] % 4])
    return cls(dtype=_sob_dtype(a))


def _b_sobieski_sg(a):
    import gemseo.problems.mdo.sobieski._disciplines_sg as m

    cls = getattr(m, _SOB[a["which"] % 4] + "SG")
    return cls(dtype=_sob_dtype(a))


_sob_args = st.fixed_dictionaries({"which": st.integers(0, 3), "complex": st.sampled_from([True, False, True])})
reg(Recipe(
    "Sobieski", "discipline", tuple(_SOB), _sob_args, _b_sobieski, grammars=("JSON",), radius=0.02, weight=3,
    notes="grammars read from the JSON files of the class: JSON grammar only",
))
reg(Recipe(
    "SobieskiSG", "discipline", tuple(s + "SG" for s in _SOB), _sob_args, _b_sobieski_sg, grammars=("Simple",), radius=0.02,
    notes="classes hard-wired to SimpleGrammar",
))


def _b_ishigami(a):
    from gemseo.problems.uncertainty.ishigami.ishigami_discipline import IshigamiDiscipline

    return IshigamiDiscipline()


reg(Recipe(
    "IshigamiDiscipline", "discipline", ("IshigamiDiscipline",), st.fixed_dictionaries({}), _b_ishigami,
    grammars=GRAMMARS, radius=1.0, gclasses=_gc("gemseo.problems.uncertainty.ishigami.ishigami_discipline.IshigamiDiscipline"),
))


def _b_aerostructure(a):
    import gemseo.problems.mdo.aerostructure.aerostructure as m

    w = a["which"] % 3
    if w == 0:
        return m.Aerodynamics()
    if w == 1:
        return m.Structure()
    return m.Mission(r_val=0.5 + 0.25 * a["r"], lift_val=0.5)


reg(Recipe(
    "Aerostructure", "discipline", ("Aerodynamics", "Structure", "Mission"),
    st.fixed_dictionaries({"which": st.integers(0, 2), "r": st.integers(0, 2)}), _b_aerostructure,
    grammars=("JSON",), radius=0.2, notes="grammars auto-detected from JSON files",
))


def _b_propane(a):
    import gemseo.problems.mdo.propane.propane as m

    return getattr(m, ["PropaneComb1", "PropaneComb2", "PropaneComb3", "PropaneReaction"][a["which"] % 4])()


reg(Recipe(
    "Propane", "discipline", ("PropaneComb1", "PropaneComb2", "PropaneComb3", "PropaneReaction"),
    st.fixed_dictionaries({"which": st.integers(0, 3)}), _b_propane, grammars=("JSON",), radius=0.1,
    approx=True, notes="grammars auto-detected from JSON files; no analytic Jacobian (finite differences)",
))


def _b_rosenmf(a):
    from gemseo.problems.optimization.rosen_mf import RosenMF

    return RosenMF(dimension=a["dim"])


reg(Recipe(
    "RosenMF", "discipline", ("RosenMF",), st.fixed_dictionaries({"dim": st.integers(2, 4)}), _b_rosenmf,
    grammars=("JSON",), radius=0.5, notes="grammars auto-detected from JSON files",
))


def _b_linear_disc(a):
    from gemseo.problems.mdo.scalable.linear.linear_discipline import LinearDiscipline

    return LinearDiscipline(
        "L", ["li1", "li2"][: a["n_in"]], ["lo1", "lo2"][: a["n_out"]], inputs_size=a["isz"], outputs_size=a["osz"],
        matrix_format=a["fmt"], matrix_density=0.6, matrix_free_jacobian=a["free"],
    )


reg(Recipe(
    "LinearDiscipline", "discipline", ("LinearDiscipline",),
    st.fixed_dictionaries({
        "n_in": st.integers(1, 2), "n_out": st.integers(1, 2), "isz": st.integers(1, 3), "osz": st.integers(1, 3),
        "fmt": st.sampled_from(["dense", "csr", "csc", "lil"]), "free": st.booleans(),
    }),
    _b_linear_disc, grammars=GRAMMARS, radius=1.0,
    gclasses=_gc("gemseo.problems.mdo.scalable.linear.linear_discipline.LinearDiscipline"),
))


def _b_parametric(a):
    from gemseo.problems.mdo.scalable.parametric.core.scalable_discipline_settings import ScalableDisciplineSettings
    from gemseo.problems.mdo.scalable.parametric.scalable_problem import ScalableProblem

    settings = [ScalableDisciplineSettings(d_i=a["d"][0], p_i=a["p"][0]), ScalableDisciplineSettings(d_i=a["d"][1], p_i=a["p"][1])]
    problem = ScalableProblem(settings, d_0=a["d0"], seed=a["seed"])
    return problem.disciplines[a["which"] % 3]


reg(Recipe(
    "ParametricScalable", "discipline", ("MainDiscipline", "ScalableDiscipline"),
    st.fixed_dictionaries({
        "d": st.lists(st.integers(1, 2), min_size=2, max_size=2), "p": st.lists(st.integers(1, 3), min_size=2, max_size=2),
        "d0": st.integers(1, 2), "seed": st.integers(0, 3), "which": st.integers(0, 2),
    }),
    _b_parametric, grammars=("JSON",), radius=0.3,
))


def _b_topopt(a):
    from gemseo.problems.topology_optimization.topopt_initialize import initialize_design_space_and_discipline_to

    _, discs = initialize_design_space_and_discipline_to(
        problem=["MBB", "Short_Cantilever", "L-Shape"][a["pb"] % 3], n_x=a["nx"], n_y=a["ny"], e0=1.0, nu=0.3,
        penalty=3.0, min_member_size=1.5, vf0=0.3,
    )
    return discs[a["which"] % len(discs)]


def _base_topopt(o, a):
    base = default_base(o, a)
    n = a["nx"] * a["ny"]
    for name in o.io.input_grammar:
        if name not in base:
            base[name] = np.linspace(0.4, 0.9, n)
    return base


reg(Recipe(
    "TopologyOptimization", "discipline", ("DensityFilter", "MaterialModelInterpolation", "FiniteElementAnalysis", "VolumeFraction"),
    st.fixed_dictionaries({"pb": st.integers(0, 2), "nx": st.integers(4, 5), "ny": st.integers(4, 5), "which": st.integers(0, 3)}),
    _b_topopt, grammars=("JSON",), radius=0.1, base=_base_topopt,
))


def _b_oscillator(a):
    from gemseo.problems.ode.oscillator_discipline import OscillatorDiscipline

    return OscillatorDiscipline(omega=float(a["omega"]), times=np.linspace(0.0, 1.0, a["nt"]), return_trajectories=a["traj"])


reg(Recipe(
    "OscillatorDiscipline", "discipline", ("OscillatorDiscipline", "ODEDiscipline"),
    st.fixed_dictionaries({"omega": st.sampled_from([1, 2, 3]), "nt": st.integers(3, 6), "traj": st.booleans()}),
    _b_oscillator, grammars=("JSON",), radius=0.3, linearizable=False,
    notes="OscillatorDiscipline is an ODEDiscipline around an AutoPyDiscipline; executed only (no analytic Jacobian, finite differences of an ODE solve are slow)",
))


# ======================================================================================
# wrappers around an inner discipline
# ======================================================================================
def _inner(k: int):
    """A small inner discipline with complete default inputs (index modulo 4)."""
    from gemseo.disciplines.analytic import AnalyticDiscipline
    from gemseo.disciplines.auto_py import AutoPyDiscipline
    from gemseo.problems.mdo.sellar.sellar_1 import Sellar1
    from gemseo.problems.mdo.sellar.sellar_system import SellarSystem

    k %= 4
    if k == 0:
        d = AnalyticDiscipline({"y": "2*x+z**2", "w": "x*z-v"}, name="inner")
        d.io.input_grammar.defaults = {"x": np.array([1.0]), "z": np.array([2.0]), "v": np.array([-1.0])}
        return d
    if k == 1:
        return Sellar1(n=2)
    if k == 2:
        return AutoPyDiscipline(py_affine, py_jac=py_affine_jac)
    return SellarSystem(n=2)


_INNER_G = _gc(
    "gemseo.disciplines.analytic.AnalyticDiscipline", "gemseo.disciplines.auto_py.AutoPyDiscipline",
    "gemseo.problems.mdo.sellar.sellar_1.Sellar1", "gemseo.problems.mdo.sellar.sellar_system.SellarSystem",
)


def _g_with(*paths):
    extra = _gc(*paths)
    return lambda: _INNER_G() + extra()


def _b_remapping(a):
    from gemseo.disciplines.remapping import RemappingDiscipline

    # RemappingDiscipline._compute_jacobian indexes dense blocks: inner disciplines with dense Jacobians only
    inner = _inner(0 if a["inner"] % 2 == 0 else 2)
    in_map, out_map = {}, {}
    if a["map_in"]:
        for name, value in inner.io.input_grammar.defaults.items():
            if value.size > 1 and a["split"]:
                in_map[f"{name}_0"] = (name, 0)
                in_map[f"{name}_rest"] = (name, list(range(1, value.size)))
            else:
                in_map[f"new_{name}"] = name
    if a["map_out"]:
        for name in inner.io.output_grammar:
            out_map[name.upper() + "_"] = name
    return RemappingDiscipline(inner, in_map, out_map)


reg(Recipe(
    "RemappingDiscipline", "discipline", ("RemappingDiscipline",),
    st.fixed_dictionaries({"inner": st.integers(0, 3), "map_in": st.booleans(), "map_out": st.booleans(), "split": st.booleans()}),
    _b_remapping, grammars=GRAMMARS + ("Simpler",), radius=0.2, weight=2,
    gclasses=_g_with("gemseo.disciplines.remapping.RemappingDiscipline"),
))


def _b_filtering(a):
    from gemseo.disciplines.wrappers.filtering_discipline import FilteringDiscipline

    inner = _inner(a["inner"])
    ins, outs = list(inner.io.input_grammar), list(inner.io.output_grammar)
    sel_in = [ins[a["i"] % len(ins)]] if a["filter_in"] else None
    sel_out = [outs[a["o"] % len(outs)]] if a["filter_out"] else None
    keep_in = a["keep_in"] or len(ins) == 1
    keep_out = a["keep_out"] or len(outs) == 1
    return FilteringDiscipline(inner, input_names=sel_in, output_names=sel_out, keep_in=keep_in, keep_out=keep_out)


reg(Recipe(
    "FilteringDiscipline", "discipline", ("FilteringDiscipline",),
    st.fixed_dictionaries({
        "inner": st.integers(0, 3), "filter_in": st.booleans(), "filter_out": st.booleans(), "i": st.integers(0, 5),
        "o": st.integers(0, 5), "keep_in": st.booleans(), "keep_out": st.booleans(),
    }),
    _b_filtering, grammars=GRAMMARS, radius=0.2, weight=2,
    gclasses=_g_with("gemseo.disciplines.wrappers.filtering_discipline.FilteringDiscipline"),
))


def _b_taylor(a):
    from gemseo.disciplines.taylor import TaylorDiscipline

    inner = _inner(a["inner"])
    point = {}
    if a["at_point"]:
        point = make_inputs(default_base(inner, a), 0.2, [0.5, -0.5, 0.25])
    return TaylorDiscipline(inner, input_data=point, name="taylor" if a["named"] else "")


reg(Recipe(
    "TaylorDiscipline", "discipline", ("TaylorDiscipline",),
    st.fixed_dictionaries({"inner": st.integers(0, 3), "at_point": st.booleans(), "named": st.booleans()}),
    _b_taylor, grammars=GRAMMARS, radius=0.3, weight=2, linearizable=False, stateful=True,
    notes="TaylorDiscipline keeps its coefficients in .jac (emptied by a cache hit) and has no _compute_jacobian: executed only",
    gclasses=_g_with("gemseo.disciplines.taylor.TaylorDiscipline"),
))


def _surrogate_dataset(n: int, two_outputs: bool):
    from gemseo.datasets.io_dataset import IODataset

    # deterministic low-discrepancy points in [0, 1]^2 (no RNG)
    i = np.arange(1, n + 1)
    x = np.column_stack([(i * 0.6180339887498949) % 1.0, (i * 0.7548776662466927) % 1.0])
    y = (1.0 + 2.0 * x[:, 0] - x[:, 1] + 0.5 * x[:, 0] * x[:, 1])[:, None]
    data = IODataset()
    data.add_variable("x", x, group_name=data.INPUT_GROUP)
    data.add_variable("y", y, group_name=data.OUTPUT_GROUP)
    if two_outputs:
        z = np.column_stack([np.sin(x[:, 0]) + x[:, 1], x[:, 0] ** 2])
        data.add_variable("z", z, group_name=data.OUTPUT_GROUP)
    return data


_REGRESSORS = [
    ("LinearRegressor", {}),
    ("PolynomialRegressor", {"degree": 2}),
    ("RBFRegressor", {}),
    ("GaussianProcessRegressor", {}),
    ("LinearRegressor", {"fit_intercept": False}),
    ("RBFRegressor", {"function": "cubic"}),
]


def _b_surrogate(a):
    from gemseo.disciplines.surrogate import SurrogateDiscipline

    algo, settings = _REGRESSORS[a["algo"] % len(_REGRESSORS)]
    data = _surrogate_dataset(a["n"], a["two_outputs"])
    kwargs = dict(settings)
    if a["no_transformer"]:
        kwargs["transformer"] = {}
    return SurrogateDiscipline(algo, data, disc_name="surr" if a["named"] else "", **kwargs)


reg(Recipe(
    "SurrogateDiscipline", "discipline", ("SurrogateDiscipline",),
    st.fixed_dictionaries({
        "algo": st.integers(0, 5), "n": st.integers(8, 12), "two_outputs": st.booleans(), "no_transformer": st.booleans(),
        "named": st.booleans(),
    }),
    _b_surrogate, grammars=GRAMMARS, radius=0.3, weight=2,
    gclasses=_gc("gemseo.disciplines.surrogate.SurrogateDiscipline"),
))


_AGG = ["IKS", "lower_bound_KS", "upper_bound_KS", "POS_SUM", "MAX", "SUM"]


def _b_aggregation(a):
    from gemseo.disciplines.constraint_aggregation import ConstraintAggregation

    fun = _AGG[a["fun"] % len(_AGG)]
    options = {}
    if a["scale"] != 1:
        options["scale"] = float(a["scale"])
    if fun in ("IKS", "lower_bound_KS", "upper_bound_KS") and a["rho"]:
        options["rho"] = float(a["rho"])
    if a["indices"]:
        options["indices"] = sorted({i % a["size"] for i in a["indices"]})
    return ConstraintAggregation(["g"], fun, name="agg" if a["named"] else "", **options)


reg(Recipe(
    "ConstraintAggregation", "discipline", ("ConstraintAggregation",),
    st.fixed_dictionaries({
        "fun": st.integers(0, 5), "scale": st.sampled_from([1, 1, 2]), "rho": st.sampled_from([0, 5, 50]),
        "indices": st.lists(st.integers(0, 3), max_size=2), "size": st.integers(2, 4), "named": st.booleans(),
    }),
    _b_aggregation, grammars=GRAMMARS, radius=0.5,
    base=lambda o, a: {"g": np.linspace(-1.0, 0.75, a["size"])},
    gclasses=_gc("gemseo.disciplines.constraint_aggregation.ConstraintAggregation"),
))


# ======================================================================================
# chains
# ======================================================================================
def _chain_disciplines(k: int):
    from gemseo.disciplines.analytic import AnalyticDiscipline
    from gemseo.problems.mdo.sellar.sellar_1 import Sellar1
    from gemseo.problems.mdo.sellar.sellar_2 import Sellar2
    from gemseo.problems.mdo.sellar.sellar_system import SellarSystem

    if k % 2 == 0:
        d1 = AnalyticDiscipline({"y1": "2*x+z"}, name="A1")
        d2 = AnalyticDiscipline({"y2": "y1**2-x"}, name="A2")
        d3 = AnalyticDiscipline({"y3": "y1+y2*z"}, name="A3")
        for d in (d1, d2, d3):
            d.io.input_grammar.defaults = {n: np.array([0.5]) for n in d.io.input_grammar}
        return [d1, d2, d3]
    return [Sellar1(), Sellar2(), SellarSystem()]


def _parallel_disciplines(k: int):
    from gemseo.disciplines.analytic import AnalyticDiscipline
    from gemseo.problems.mdo.sellar.sellar_1 import Sellar1
    from gemseo.problems.mdo.sellar.sellar_2 import Sellar2

    if k % 2 == 0:
        d1 = AnalyticDiscipline({"p1": "2*x+z", "s": "x"}, name="P1")
        d2 = AnalyticDiscipline({"p2": "x*z", "s": "z**2"}, name="P2")
        for d in (d1, d2):
            d.io.input_grammar.defaults = {n: np.array([0.5]) for n in d.io.input_grammar}
        return [d1, d2], ["s"]
    return [Sellar1(), Sellar2()], []


_CHAIN_G = _gc(
    "gemseo.disciplines.analytic.AnalyticDiscipline", "gemseo.problems.mdo.sellar.sellar_1.Sellar1",
    "gemseo.problems.mdo.sellar.sellar_2.Sellar2", "gemseo.problems.mdo.sellar.sellar_system.SellarSystem",
)


def _cg_with(*paths):
    extra = _gc(*paths)
    return lambda: _CHAIN_G() + extra()


def _b_mdochain(a):
    from gemseo.core.chains.chain import MDOChain

    return MDOChain(_chain_disciplines(a["d"]), name="chain" if a["named"] else "")


reg(Recipe(
    "MDOChain", "discipline", ("MDOChain",), st.fixed_dictionaries({"d": st.integers(0, 1), "named": st.booleans()}),
    _b_mdochain, grammars=GRAMMARS + ("Simpler",), radius=0.2, weight=2, gclasses=_cg_with("gemseo.core.chains.chain.MDOChain"),
))


def _b_parallelchain(a):
    from gemseo.core.chains.parallel_chain import MDOParallelChain

    discs, _ = _parallel_disciplines(a["d"])
    return MDOParallelChain(discs, use_threading=True, n_processes=a["n_proc"], use_deep_copy=a["deep"])


reg(Recipe(
    "MDOParallelChain", "discipline", ("MDOParallelChain",),
    st.fixed_dictionaries({"d": st.integers(0, 1), "n_proc": st.integers(1, 2), "deep": st.booleans()}),
    _b_parallelchain, grammars=GRAMMARS + ("Simpler",), radius=0.2, weight=2,
    gclasses=_cg_with("gemseo.core.chains.parallel_chain.MDOParallelChain"),
))


def _b_additivechain(a):
    from gemseo.core.chains.additive_chain import MDOAdditiveChain

    discs, to_sum = _parallel_disciplines(0)
    return MDOAdditiveChain(discs, to_sum, n_processes=a["n_proc"])


reg(Recipe(
    "MDOAdditiveChain", "discipline", ("MDOAdditiveChain",), st.fixed_dictionaries({"n_proc": st.integers(1, 2)}),
    _b_additivechain, grammars=GRAMMARS + ("Simpler",), radius=0.2,
    gclasses=_cg_with("gemseo.core.chains.additive_chain.MDOAdditiveChain"),
))


def _b_initchain(a):
    from gemseo.core.chains.initialization_chain import MDOInitializationChain

    discs = _chain_disciplines(0)
    if a["shuffle"]:
        discs = discs[::-1]
    for d in discs[1:] if not a["shuffle"] else discs[:-1]:
        d.io.input_grammar.defaults = {n: v for n, v in d.io.input_grammar.defaults.items() if not n.startswith("y")}
    return MDOInitializationChain(discs, available_data_names=["x", "z"])


reg(Recipe(
    "MDOInitializationChain", "discipline", ("MDOInitializationChain",), st.fixed_dictionaries({"shuffle": st.booleans()}),
    _b_initchain, grammars=GRAMMARS + ("Simpler",), radius=0.2,
    gclasses=_cg_with("gemseo.core.chains.initialization_chain.MDOInitializationChain"),
))


def _b_warmchain(a):
    from gemseo.core.chains.warm_started_chain import MDOWarmStartedChain

    discs = _chain_disciplines(a["d"])
    names = ["y1"] if a["d"] % 2 == 0 else ["y_1", "y_2"][: a["n"]]
    return MDOWarmStartedChain(discs, variable_names_to_warm_start=names)


reg(Recipe(
    "MDOWarmStartedChain", "discipline", ("MDOWarmStartedChain",), st.fixed_dictionaries({"d": st.integers(0, 1), "n": st.integers(1, 2)}),
    _b_warmchain, grammars=GRAMMARS + ("Simpler",), radius=0.2, linearizable=False, stateful=True,
    gclasses=_cg_with("gemseo.core.chains.warm_started_chain.MDOWarmStartedChain"),
    notes="warm-started variables are state: the comparison replays the same input sequence on both objects",
))


# ======================================================================================
# MDAs
# ======================================================================================
MDA_CLASSES = ["MDAJacobi", "MDAGaussSeidel", "MDANewtonRaphson", "MDAQuasiNewton", "MDAGSNewton", "MDASequential", "MDAChain"]
_ACC = ["NoTransformation", "MinimumPolynomial", "Secant", "Aitken", "Alternate2Delta", "AlternateDeltaSquared"]


def _mda_settings(a) -> dict:
    s = {"tolerance": float(a["tol"]), "max_mda_iter": a["max_iter"]}
    if a["warm"]:
        s["warm_start"] = True
    if a["use_lu"]:
        s["use_lu_fact"] = True
    return s


def _b_mda(a):
    from gemseo.mda.factory import MDAFactory
    from gemseo.problems.mdo.sellar.sellar_1 import Sellar1
    from gemseo.problems.mdo.sellar.sellar_2 import Sellar2
    from gemseo.problems.mdo.sellar.sellar_system import SellarSystem

    n = a["n"]
    discs = [Sellar1(n=n), Sellar2(n=n), SellarSystem(n=n)]
    if a["order"]:
        discs = [discs[1], discs[0], discs[2]]
    cls = MDA_CLASSES[a["cls"] % len(MDA_CLASSES)]
    if cls in ("MDANewtonRaphson", "MDAQuasiNewton", "MDAGSNewton", "MDASequential"):
        discs = discs[:2]  # root-finding MDAs reject weakly coupled disciplines
    s = _mda_settings(a)
    factory = MDAFactory()
    if cls in ("MDAJacobi", "MDAGaussSeidel"):
        acc = _ACC[a["acc"] % len(_ACC)]
        s["acceleration_method"] = acc
        if acc != "Aitken":  # known divergence of Aitken with over-relaxation (C06 finding), not a serialization matter
            s["over_relaxation_factor"] = float(a["relax"])
    if cls == "MDAJacobi":
        s["n_processes"] = a["n_proc"]
    if cls == "MDAQuasiNewton":
        s["method"] = ["hybr", "broyden1", "krylov"][a["acc"] % 3] if a["acc"] % 2 else "hybr"
    if cls == "MDASequential":
        sub = [factory.create("MDAJacobi", discs, max_mda_iter=2), factory.create("MDANewtonRaphson", discs)]
        return factory.create(cls, discs, mda_sequence=sub, **s)
    if cls == "MDAChain":
        s["inner_mda_name"] = ["MDAJacobi", "MDAGaussSeidel", "MDANewtonRaphson"][a["acc"] % 3]
        s["chain_linearize"] = bool(a["relax"] != 1)
    return factory.create(cls, discs, **s)


def _mda_gclasses():
    from gemseo.mda.base_mda import BaseMDA

    return _SELLAR_G() + (BaseMDA,)


reg(Recipe(
    "MDA", "mda", tuple(MDA_CLASSES),
    st.fixed_dictionaries({
        "cls": st.integers(0, 6), "n": st.integers(1, 2), "order": st.booleans(), "tol": st.sampled_from([1e-6, 1e-10, 1e-3]),
        "max_iter": st.sampled_from([3, 10, 30]), "warm": st.booleans(), "use_lu": st.booleans(), "acc": st.integers(0, 5),
        "relax": st.sampled_from([1, 1, 0.8, 1.2]), "n_proc": st.integers(1, 2),
    }),
    _b_mda, grammars=("Simpler", "JSON", "Simple"), radius=0.2, weight=8, gclasses=_mda_gclasses, stateful=True,
    notes="MDAs keep residual scaling data, acceleration history and sub-discipline caches between executions",
))


def _b_sobieski_process(a):
    w = a["which"] % 3
    if w == 0:
        from gemseo.problems.mdo.sobieski.process.mdo_chain import SobieskiChain

        return SobieskiChain(dtype=_sob_dtype(a))
    if w == 1:
        from gemseo.problems.mdo.sobieski.process.mda_gauss_seidel import SobieskiMDAGaussSeidel

        return SobieskiMDAGaussSeidel(dtype=_sob_dtype(a), max_mda_iter=a["max_iter"], tolerance=float(a["tol"]))
    from gemseo.problems.mdo.sobieski.process.mda_jacobi import SobieskiMDAJacobi

    return SobieskiMDAJacobi(dtype=_sob_dtype(a), max_mda_iter=a["max_iter"], tolerance=float(a["tol"]), n_processes=1)


reg(Recipe(
    "SobieskiProcess", "mda", ("SobieskiChain", "SobieskiMDAGaussSeidel", "SobieskiMDAJacobi"),
    st.fixed_dictionaries({
        "which": st.integers(0, 2), "complex": st.just(False), "max_iter": st.sampled_from([3, 10]), "tol": st.sampled_from([1e-6, 1e-10]),
    }),
    _b_sobieski_process, grammars=("Simpler",), radius=0.02, weight=2, stateful=True,
))


# ======================================================================================
# scenario adapters (disciplines wrapping a scenario)
# ======================================================================================
def _small_mdo_scenario(max_iter: int = 4):
    from gemseo import create_scenario
    from gemseo.algos.design_space import DesignSpace
    from gemseo.disciplines.analytic import AnalyticDiscipline

    d = AnalyticDiscipline({"f": "(x-z)**2+v*x", "g": "x+z-3"}, name="sub")
    d.io.input_grammar.defaults = {"x": np.array([0.5]), "z": np.array([1.0]), "v": np.array([0.25])}
    space = DesignSpace()
    space.add_variable("x", lower_bound=-2.0, upper_bound=3.0, value=0.5)
    scenario = create_scenario([d], "f", space, formulation_name="DisciplinaryOpt")
    scenario.add_constraint("g", constraint_type="ineq")
    scenario.set_algorithm(algo_name="SLSQP", max_iter=max_iter)
    return scenario


def _b_adapter(a):
    from gemseo.disciplines.scenario_adapters.mdo_objective_scenario_adapter import MDOObjectiveScenarioAdapter
    from gemseo.disciplines.scenario_adapters.mdo_scenario_adapter import MDOScenarioAdapter

    cls = MDOObjectiveScenarioAdapter if a["objective"] else MDOScenarioAdapter
    outputs = ["f"] if a["objective"] else ["f", "g"][: a["n_out"]]
    return cls(
        _small_mdo_scenario(a["max_iter"]), ["z", "v"][: a["n_in"]], outputs, reset_x0_before_opt=a["reset"],
        set_x0_before_opt=False, name="adapter" if a["named"] else "",
    )


reg(Recipe(
    "ScenarioAdapter", "discipline", ("MDOScenarioAdapter", "MDOObjectiveScenarioAdapter"),
    st.fixed_dictionaries({
        "objective": st.booleans(), "n_in": st.integers(1, 2), "n_out": st.integers(1, 2), "reset": st.booleans(),
        "max_iter": st.integers(2, 4), "named": st.booleans(),
    }),
    _b_adapter, grammars=("Simpler",), radius=0.2, linearizable=False, stateful=True,
    notes="the adapted scenario restarts from its last design unless reset_x0_before_opt; executed only",
))


# ======================================================================================
# scenarios
# ======================================================================================
FORMULATIONS = ["DisciplinaryOpt", "MDF", "IDF", "DisciplinaryOpt+MDA"]


def build_scenario(a):
    """An MDO or DOE scenario: analytic DisciplinaryOpt, Sellar MDF / IDF, DisciplinaryOpt over an MDA."""
    from gemseo import create_scenario
    from gemseo.mda.gauss_seidel import MDAGaussSeidel
    from gemseo.problems.mdo.sellar.sellar_1 import Sellar1
    from gemseo.problems.mdo.sellar.sellar_2 import Sellar2
    from gemseo.problems.mdo.sellar.sellar_design_space import SellarDesignSpace
    from gemseo.problems.mdo.sellar.sellar_system import SellarSystem

    form = FORMULATIONS[a["form"] % 4]
    typ = "DOE" if a["doe"] else "MDO"
    if form == "DisciplinaryOpt":
        scenario = _small_mdo_scenario()
        if typ == "DOE":
            from gemseo.algos.design_space import DesignSpace

            d = scenario.disciplines[0]
            space = DesignSpace()
            space.add_variable("x", lower_bound=-2.0, upper_bound=3.0, value=0.5)
            scenario = create_scenario([d], "f", space, formulation_name="DisciplinaryOpt", scenario_type="DOE")
            scenario.add_constraint("g", constraint_type="ineq")
        if a["observable"]:
            scenario.add_observable("g", observable_name="obs_g")
        return scenario
    discs = [Sellar1(), Sellar2(), SellarSystem()]
    space = SellarDesignSpace()
    settings = {}
    if form == "DisciplinaryOpt+MDA":
        discs = [MDAGaussSeidel(discs, max_mda_iter=8, tolerance=1e-8)]
        form = "DisciplinaryOpt"
    elif form == "MDF":
        settings = {"main_mda_name": ["MDAChain", "MDAGaussSeidel", "MDAJacobi"][a["mda"] % 3]}
    if form != "IDF":
        space.filter(["x_1", "x_2", "x_shared"])
    scenario = create_scenario(discs, "obj", space, formulation_name=form, scenario_type=typ, maximize_objective=a["maximize"], **settings)
    if a["constraints"]:
        scenario.add_constraint("c_1", constraint_type="ineq")
        scenario.add_constraint("c_2", constraint_type="ineq")
    if a["observable"]:
        scenario.add_observable("y_1")
    return scenario


def scenario_settings(a, run) -> dict:
    """Driver settings of one run (JSON primitives in ``run``)."""
    if a["doe"]:
        if run["algo"] % 2 == 0:
            return {"algo_name": "PYDOE_LHS", "n_samples": 2 + run["n"] % 3, "random_state": 1 + run["seed"], "eval_jac": bool(run["jac"])}
        return {"algo_name": "OT_HALTON", "n_samples": 2 + run["n"] % 3, "eval_jac": bool(run["jac"])}
    algo = ["SLSQP", "L-BFGS-B", "NLOPT_COBYLA"][run["algo"] % 3]
    if algo == "L-BFGS-B" and (a["constraints"] or a["form"] % 4 in (0, 2)):
        algo = "SLSQP"  # L-BFGS-B does not handle constraints
    return {"algo_name": algo, "max_iter": 2 + run["n"] % 4}


_run_st = st.fixed_dictionaries({"algo": st.integers(0, 5), "n": st.integers(0, 5), "seed": st.integers(0, 3), "jac": st.booleans()})
reg(Recipe(
    "Scenario", "scenario", ("MDOScenario", "DOEScenario"),
    st.fixed_dictionaries({
        "form": st.integers(0, 3), "doe": st.booleans(), "constraints": st.booleans(), "observable": st.booleans(),
        "maximize": st.booleans(), "mda": st.integers(0, 2),
    }),
    build_scenario, grammars=("Simpler",), stateful=True,
))


# ======================================================================================
# MDOFunction kinds
# ======================================================================================
FUNCTION_KINDS = [
    "MDOFunction_scalar", "MDOFunction_vector", "MDOLinearFunction", "MDOQuadraticFunction", "sum_and_scale", "product",
    "quotient", "offset_neg", "FunctionRestriction", "ConvexLinearApprox", "LinearCompositeFunction", "Concatenate",
    "DisciplineAdapter", "linear_approximation", "quadratic_approximation", "ProblemFunction_objective",
    "ProblemFunction_constraint", "ProblemFunction_observable",
]


def _coef(a, n, k=0):
    c = a["c"]
    return [float(c[(k + i) % len(c)]) for i in range(n)]


def _basic_functions(a, n):
    from gemseo.core.mdo_functions.mdo_function import MDOFunction
    from gemseo.core.mdo_functions.mdo_linear_function import MDOLinearFunction
    from gemseo.core.mdo_functions.mdo_quadratic_function import MDOQuadraticFunction

    b = _coef(a, n)
    mat = np.array([_coef(a, n, 1 + i) for i in range(n)])
    f = MDOFunction(
        QuadForm(a["c"][0], b, mat), "f", jac=QuadFormJac(a["c"][0], b, mat), expr="q(x)", input_names=["x"], dim=1,
        f_type=MDOFunction.FunctionType.OBJ,
    )
    m2 = np.array([_coef(a, n, 2), _coef(a, n, 3)])
    g = MDOFunction(VecForm(m2, [1.0, -0.5]), "g", jac=VecFormJac(m2, [1.0, -0.5]), input_names=["x"], dim=2, output_names=["g_0", "g_1"])
    lin = MDOLinearFunction(m2 * 0.5, "lin", input_names=["x"], value_at_zero=np.array([1.0, -1.0]))
    quad = MDOQuadraticFunction(mat + mat.T, "quad", input_names=["x"], linear_coeffs=np.array(b), value_at_zero=2.0)
    return f, g, lin, quad


def build_problem(a, n=None):
    """An OptimizationProblem over ``x`` (size n) with quadratic objective, vector inequality, linear equality."""
    from gemseo.algos.design_space import DesignSpace
    from gemseo.algos.optimization_problem import OptimizationProblem
    from gemseo.core.mdo_functions.mdo_function import MDOFunction

    n = n or a["n"]
    f, g, lin, quad = _basic_functions(a, n)
    space = DesignSpace()
    space.add_variable("x", size=n, lower_bound=-2.0, upper_bound=3.0, value=np.full(n, 0.5))
    kwargs = {}
    if a.get("fd"):
        kwargs = {"differentiation_method": "finite_differences", "differentiation_step": 1e-6}
    problem = OptimizationProblem(space, **kwargs)
    problem.objective = f
    if a.get("maximize"):
        problem.minimize_objective = False
    if a.get("ineq", True):
        problem.add_constraint(g, value=float(a["c"][1]), constraint_type=MDOFunction.ConstraintType.INEQ, positive=bool(a.get("positive")))
    if a.get("eq"):
        # one consistent linear equality (SLSQP never returns on inconsistent equality systems: not a
        # serialization matter)
        from gemseo.core.mdo_functions.mdo_linear_function import MDOLinearFunction

        row = np.array([[1.0, -0.5, 0.25][:n]])
        eq = MDOLinearFunction(row, "eq", input_names=["x"], value_at_zero=np.array([-0.1]))
        problem.add_constraint(eq, constraint_type=MDOFunction.ConstraintType.EQ)
    if a.get("observable", True):
        problem.add_observable(quad)
    if a.get("tol"):
        problem.tolerances.inequality = 1e-3
        problem.tolerances.equality = 1e-2
    return problem


def build_function(a):
    """Returns (function, input dimension, owning problem or None)."""
    from gemseo.core.mdo_functions.concatenate import Concatenate
    from gemseo.core.mdo_functions.convex_linear_approx import ConvexLinearApprox
    from gemseo.core.mdo_functions.discipline_adapter_generator import DisciplineAdapterGenerator
    from gemseo.core.mdo_functions.function_restriction import FunctionRestriction
    from gemseo.core.mdo_functions.linear_composite_function import LinearCompositeFunction
    from gemseo.core.mdo_functions.taylor_polynomials import compute_linear_approximation
    from gemseo.core.mdo_functions.taylor_polynomials import compute_quadratic_approximation

    kind = FUNCTION_KINDS[a["kind"] % len(FUNCTION_KINDS)]
    n = a["n"]
    f, g, lin, quad = _basic_functions(a, n)
    x0 = np.linspace(0.25, 0.75, n)
    if kind == "MDOFunction_scalar":
        return f, n, None
    if kind == "MDOFunction_vector":
        return g, n, None
    if kind == "MDOLinearFunction":
        return lin, n, None
    if kind == "MDOQuadraticFunction":
        return quad, n, None
    if kind == "sum_and_scale":
        return (f + quad) * 2.0 - lin, n, None
    if kind == "product":
        return f * quad, n, None
    if kind == "quotient":
        return f / (quad * quad + 1.0), n, None
    if kind == "offset_neg":
        return -(g.offset(1.5)), n, None
    if kind == "FunctionRestriction":
        return FunctionRestriction(np.array([0]), np.array([0.5]), n, g), n - 1, None
    if kind == "ConvexLinearApprox":
        return ConvexLinearApprox(x0, f), n, None
    if kind == "LinearCompositeFunction":
        return LinearCompositeFunction(f, np.hstack([np.eye(n), np.ones((n, 1))])), n + 1, None
    if kind == "Concatenate":
        return Concatenate([g, lin], "g_lin"), n, None
    if kind == "DisciplineAdapter":
        return DisciplineAdapterGenerator(_inner(0)).get_function(["x", "z"], ["y", "w"]), 2, None
    if kind == "linear_approximation":
        return compute_linear_approximation(g, x0), n, None
    if kind == "quadratic_approximation":
        return compute_quadratic_approximation(f, x0, np.eye(n) * 2.0), n, None
    problem = build_problem(a)
    problem.preprocess_functions(is_function_input_normalized=bool(a["normalized"]), use_database=bool(a["database"]))
    if kind == "ProblemFunction_objective":
        return problem.objective, n, problem
    if kind == "ProblemFunction_constraint":
        return problem.constraints[0], n, problem
    return problem.observables[0], n, problem


_fun_args = st.fixed_dictionaries({
    "kind": st.integers(0, len(FUNCTION_KINDS) - 1), "n": st.integers(2, 3),
    "c": st.lists(st.integers(-3, 3), min_size=4, max_size=6), "normalized": st.booleans(), "database": st.booleans(),
    "fd": st.booleans(), "maximize": st.booleans(), "positive": st.booleans(),
})
reg(Recipe("MDOFunction", "function", tuple(FUNCTION_KINDS), _fun_args, build_function))

reg(Recipe(
    "OptimizationProblem", "problem", ("OptimizationProblem",),
    st.fixed_dictionaries({
        "n": st.integers(2, 3), "c": st.lists(st.integers(-3, 3), min_size=4, max_size=6), "fd": st.booleans(),
        "maximize": st.booleans(), "positive": st.booleans(), "ineq": st.booleans(), "eq": st.booleans(),
        "observable": st.booleans(), "tol": st.booleans(),
    }),
    build_problem,
))


# ======================================================================================
# design and parameter spaces
# ======================================================================================
_VAR_NAMES = ["x", "yy", "z_3", "w"]
_DISTRIBUTIONS = {
    "OT": [("OTNormalDistribution", {"mu": 1.0, "sigma": 2.0}), ("OTUniformDistribution", {"minimum": -1.0, "maximum": 2.0}),
           ("OTTriangularDistribution", {"minimum": 0.0, "mode": 0.5, "maximum": 2.0})],
    "SP": [("SPNormalDistribution", {"mu": 1.0, "sigma": 2.0}), ("SPUniformDistribution", {"minimum": -1.0, "maximum": 2.0}),
           ("SPTriangularDistribution", {"minimum": 0.0, "mode": 0.5, "maximum": 2.0})],
}


def build_space(a):
    """A DesignSpace, or a ParameterSpace when ``a['random']`` lists random variables."""
    from gemseo.algos.design_space import DesignSpace
    from gemseo.algos.parameter_space import ParameterSpace

    space = ParameterSpace() if a["random"] else DesignSpace()
    for k, v in enumerate(a["vars"]):
        name = _VAR_NAMES[k]
        size = v["size"]
        integer = v["integer"]
        lb = None if v["lb"] is None else (float(int(v["lb"])) if integer else float(v["lb"]))
        ub = None if v["ub"] is None else lb_plus(lb, v["ub"], integer)
        value = None
        if v["value"] is not None:
            lo = lb if lb is not None else (ub - 4.0 if ub is not None else -2.0)
            hi = ub if ub is not None else lo + 4.0
            value = lo + (hi - lo) * np.array([(v["value"] + 0.37 * i) % 1.0 for i in range(size)])
            if integer:
                value = np.round(value)
        space.add_variable(
            name, size=size, type_="integer" if integer else "float",
            lower_bound=-np.inf if lb is None else lb, upper_bound=np.inf if ub is None else ub, value=value,
        )
    family = "OT" if a["family"] % 2 == 0 else "SP"
    for k, r in enumerate(a["random"]):
        dist, params = _DISTRIBUTIONS[family][r["dist"] % 3]
        space.add_random_variable(f"u{k}", dist, size=r["size"], **params)
    return space


def lb_plus(lb, width, integer):
    base = 0.0 if lb is None else lb
    w = float(int(width)) + 1.0 if integer else float(width) + 0.5
    return base + w


_var_st = st.fixed_dictionaries({
    "size": st.integers(1, 3), "integer": st.booleans(), "lb": st.one_of(st.none(), st.sampled_from([-2, -1.5, 0, 1])),
    "ub": st.one_of(st.none(), st.sampled_from([0, 1, 2.5, 4])), "value": st.one_of(st.none(), st.sampled_from([0.0, 0.25, 0.6, 0.99])),
})
reg(Recipe(
    "Space", "space", ("DesignSpace", "ParameterSpace"),
    st.fixed_dictionaries({
        "vars": st.lists(_var_st, min_size=1, max_size=3),
        "random": st.lists(st.fixed_dictionaries({"dist": st.integers(0, 2), "size": st.integers(1, 2)}), min_size=0, max_size=2),
        "family": st.integers(0, 1),
    }),
    build_space,
))
